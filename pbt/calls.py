"""Uniform ways of calling the public API from case records, plus the join evaluator
that pairs a library result with the reference model."""
import collections
import contextlib

import joblib

from . import canon, oracle
from .env import FILTERS, JOINS, mk_tok


@contextlib.contextmanager
def backend(n_jobs, real=False):
    """n_jobs != 1 runs the library's own split/concat code on joblib's threading backend
    (selected from outside; no process start-up) unless real loky workers are asked for."""
    if n_jobs == 1 or real:
        yield
    else:
        with joblib.parallel_config(backend="threading"):
            yield


def join_kwargs(case):
    kw = dict(comp_op=case["op"], allow_missing=case.get("allow_missing", False),
              l_out_attrs=case.get("l_out"), r_out_attrs=case.get("r_out"),
              l_out_prefix=case.get("prefix", ["l_", "r_"])[0],
              r_out_prefix=case.get("prefix", ["l_", "r_"])[1],
              out_sim_score=case.get("out_sim_score", True),
              n_jobs=case.get("n_jobs", 1), show_progress=bool(case.get("show_progress", False)))
    if case["measure"] not in ("OVERLAP", "EDIT_DISTANCE"):
        kw["allow_empty"] = case.get("allow_empty", True)
    return kw


def run_join(ctx, case, L, R, tok, real=False, **over):
    """Public join call for a case record; L/R DataFrames; tok a tokenizer object or None
    (None = leave edit_distance_join's default tokenizer argument alone)."""
    m = case["measure"]
    kw = join_kwargs(case)
    kw.update(over)
    fn = JOINS[m]
    with backend(kw["n_jobs"], real):
        if m == "EDIT_DISTANCE":
            if tok is not None:
                kw["tokenizer"] = tok
            return ctx.lib(fn, L, R, case["L"]["key"], case["R"]["key"], case["L"]["attr"],
                           case["R"]["attr"], case["threshold"], **kw)
        return ctx.lib(fn, L, R, case["L"]["key"], case["R"]["key"], case["L"]["attr"],
                       case["R"]["attr"], tok, case["threshold"], **kw)


def make_filter(ctx, fcfg, tok):
    """fcfg: {type, measure, threshold, allow_empty, allow_missing, op}"""
    ft = fcfg["type"]
    if ft == "overlap":
        return ctx.lib(FILTERS[ft], tok, fcfg["threshold"], fcfg.get("op", ">="),
                       fcfg.get("allow_missing", False))
    return ctx.lib(FILTERS[ft], tok, fcfg["measure"], fcfg["threshold"],
                   fcfg.get("allow_empty", True), fcfg.get("allow_missing", False))


def run_filter_tables(ctx, f, case, L, R, real=False, **over):
    kw = dict(l_out_attrs=case.get("l_out"), r_out_attrs=case.get("r_out"),
              l_out_prefix=case.get("prefix", ["l_", "r_"])[0],
              r_out_prefix=case.get("prefix", ["l_", "r_"])[1],
              n_jobs=case.get("n_jobs", 1), show_progress=bool(case.get("show_progress", False)))
    kw.update(over)
    with backend(kw["n_jobs"], real):
        return ctx.lib(f.filter_tables, L, R, case["L"]["key"], case["R"]["key"],
                       case["L"]["attr"], case["R"]["attr"], **kw)


def run_filter_candset(ctx, f, case, C, cnames, L, R, n_jobs=1, real=False):
    with backend(n_jobs, real):
        return ctx.lib(f.filter_candset, C, cnames[0], cnames[1], L, R, case["L"]["key"],
                       case["R"]["key"], case["L"]["attr"], case["R"]["attr"],
                       n_jobs=n_jobs, show_progress=bool(case.get("show_progress", False)))


def lvals(case):
    return canon.table_column(case["L"], case["L"]["attr"])["values"]


def rvals(case):
    return canon.table_column(case["R"], case["R"]["attr"])["values"]


def lkeys(case):
    return canon.table_column(case["L"], case["L"]["key"])["values"]


def rkeys(case):
    return canon.table_column(case["R"], case["R"]["key"])["values"]


def out_key_cols(case):
    p = case.get("prefix", ["l_", "r_"])
    return p[0] + case["L"]["key"], p[1] + case["R"]["key"]


def key_pairs(df, case):
    """Counter of (lkey, rkey) canonical pairs in a join / filter_tables result."""
    lk, rk = out_key_cols(case)
    a = canon.col_values(df, lk)
    b = canon.col_values(df, rk)
    return collections.Counter(zip(a, b)), list(zip(a, b))


class Pairs(object):
    """Reference classification of every (left row, right row) pair of a set-measure case."""

    def __init__(self, case, measure=None, threshold=None, op=None):
        self.case = case
        self.measure = measure or case["measure"]
        self.threshold = case["threshold"] if threshold is None else threshold
        self.op = op or case.get("op", ">=")
        self.lk = [canon.cv(k) for k in lkeys(case)]
        self.rk = [canon.cv(k) for k in rkeys(case)]
        sp = oracle.SetPairs(case["tok"], lvals(case), rvals(case))
        self.sp = sp
        self.cat = {}      # (lkey, rkey) -> category
        self.stats = {}    # (lkey, rkey) -> (n, m, o) or None
        for i, j, s in sp.all_pairs():
            k = (self.lk[i], self.rk[j])
            self.stats[k] = s
            if s is None:
                self.cat[k] = "missing"
            elif s[0] == 0 and s[1] == 0:
                self.cat[k] = "bothempty"
            elif s[0] == 0 or s[1] == 0:
                self.cat[k] = "oneempty"
            else:
                self.cat[k] = oracle.classify(self.measure, s[0], s[1], s[2], self.threshold,
                                              self.op)

    def of(self, cat):
        return [k for k, c in self.cat.items() if c == cat]

    def count(self, cat):
        return sum(1 for c in self.cat.values() if c == cat)
