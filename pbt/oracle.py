"""Reference model: independent set arithmetic, Levenshtein, must/may classification.

Trusted: py_stringmatching tokenizers (fresh instances).  Not trusted: py_stringmatching
similarity measures, anything in py_stringsimjoin.
"""
import math
import operator
from collections import Counter

from .env import mk_tok

OPS = {">=": operator.ge, ">": operator.gt, "<=": operator.le, "<": operator.lt,
       "=": operator.eq, "!=": operator.ne}

SET_MEASURES = ("JACCARD", "COSINE", "DICE", "OVERLAP_COEFFICIENT", "OVERLAP")
ROUNDED = ("JACCARD", "COSINE", "DICE")


def is_missing(v):
    # None, NaN, and pd.NA (what a nullable string column hands back for a missing value)
    return v is None or (isinstance(v, float) and v != v) or type(v).__name__ == "NAType"


class Tok(object):
    """Memoising wrapper around a fresh tokenizer of a given configuration."""

    def __init__(self, cfg, return_set):
        c = dict(cfg)
        c["return_set"] = return_set
        self.t = mk_tok(c)
        self.cache = {}

    def __call__(self, s):
        r = self.cache.get(s)
        if r is None:
            r = self.t.tokenize(s)
            self.cache[s] = r
        return r


def sim_values(measure, n, m, o):
    """All double-precision renderings of the similarity the property admits."""
    if n == 0 or m == 0:
        return [0.0]
    if measure == "JACCARD":
        return [float(o) / float(n + m - o)]
    if measure == "DICE":
        return [2.0 * float(o) / float(n + m)]
    if measure == "COSINE":
        a = float(o) / math.sqrt(float(n) * float(m))
        b = float(o) / (math.sqrt(float(n)) * math.sqrt(float(m)))
        return [a] if a == b else [a, b]
    if measure == "OVERLAP_COEFFICIENT":
        return [float(o) / float(min(n, m))]
    if measure == "OVERLAP":
        return [o]
    raise ValueError(measure)


def exact_sim(measure, n, m, o):
    return sim_values(measure, n, m, o)[0]


def classify(measure, n, m, o, threshold, op):
    """'must' | 'straddle' | 'no' for a pair of present values, not both empty.

    must: the comparison holds for every admitted double and for every 4-decimal rounding
    (rounding only for JACCARD/COSINE/DICE); 'no': it holds for none; else 'straddle'.
    A pair with exactly one empty side has similarity 0 and is never required.
    """
    f = OPS[op]
    vals = list(sim_values(measure, n, m, o))
    if measure in ROUNDED:
        vals = vals + [round(v, 4) for v in vals]
    res = [bool(f(v, threshold)) for v in vals]
    if all(res):
        return "must"
    if any(res):
        return "straddle"
    return "no"


def score_ok(measure, n, m, o, score):
    """The score rule of DESIGN 2.3 for a present, not-both-empty pair."""
    if score is None or (isinstance(score, float) and score != score):
        return False
    if measure in ROUNDED:
        try:
            s = float(score)
        except Exception:
            return False
        if round(s, 4) != s:
            return False
        return any(abs(s - v) <= 5e-5 + 1e-9 for v in sim_values(measure, n, m, o))
    if measure == "OVERLAP_COEFFICIENT":
        return float(score) == float(o) / float(min(n, m))
    if measure == "OVERLAP":
        return score == o
    raise ValueError(measure)


_LEV = {}


def levenshtein(a, b):
    k = (a, b)
    r = _LEV.get(k)
    if r is None:
        r = _levenshtein(a, b)
        if len(_LEV) < 400000:
            _LEV[k] = r
    return r


def _levenshtein(a, b):
    if a == b:
        return 0
    la, lb = len(a), len(b)
    if la == 0:
        return lb
    if lb == 0:
        return la
    prev = list(range(lb + 1))
    for i in range(1, la + 1):
        cur = [i] + [0] * lb
        ca = a[i - 1]
        for j in range(1, lb + 1):
            c = prev[j - 1] + (0 if ca == b[j - 1] else 1)
            d = prev[j] + 1
            if d < c:
                c = d
            d = cur[j - 1] + 1
            if d < c:
                c = d
            cur[j] = c
        prev = cur
    return prev[lb]


def levenshtein_bounded(a, b, k):
    """Levenshtein distance if it is <= k, else k + 1 (banded DP, O(len * k))."""
    la, lb = len(a), len(b)
    if abs(la - lb) > k:
        return k + 1
    if a == b:
        return 0
    big = k + 1
    prev = [j if j <= k else big for j in range(lb + 1)]
    for i in range(1, la + 1):
        lo, hi = max(1, i - k), min(lb, i + k)
        cur = [big] * (lb + 1)
        if i <= k:
            cur[0] = i
        ca = a[i - 1]
        for j in range(lo, hi + 1):
            c = prev[j - 1] + (0 if ca == b[j - 1] else 1)
            d = prev[j] + 1
            if d < c:
                c = d
            d = cur[j - 1] + 1
            if d < c:
                c = d
            cur[j] = c if c < big else big
        prev = cur
    return prev[lb] if prev[lb] <= k else big


def bag_overlap(x, y):
    cx, cy = Counter(x), Counter(y)
    return sum(min(c, cy[t]) for t, c in cx.items() if t in cy)


def shares_qgram(x, y):
    return not set(x).isdisjoint(y)


class SetPairs(object):
    """Brute-force nested loop over two value lists for a set measure."""

    def __init__(self, tokcfg, lvals, rvals):
        self.tok = Tok(tokcfg, True)
        self.lsets = [None if is_missing(v) else set(self.tok(v)) for v in lvals]
        self.rsets = [None if is_missing(v) else set(self.tok(v)) for v in rvals]

    def stats(self, i, j):
        x, y = self.lsets[i], self.rsets[j]
        if x is None or y is None:
            return None
        return len(x), len(y), len(x & y)

    def all_pairs(self):
        for i, x in enumerate(self.lsets):
            for j, y in enumerate(self.rsets):
                if x is None or y is None:
                    yield i, j, None
                else:
                    yield i, j, (len(x), len(y), len(x & y))
