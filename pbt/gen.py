"""Hypothesis strategies producing JSON-able case records (DESIGN section 3.1).

Everything random is drawn here; check functions are pure functions of the record.
"""
import copy
import math

from hypothesis import strategies as st

from . import canon, oracle

NAN = float("nan")

# ------------------------------------------------------------------ tokenizers

# "aAbB" / "aAéÉ": tokens that differ only in letter case (a case-folding comparison
# anywhere in the library would identify or tie them)
WORD_ALPHABETS = ["ab", "abc", "abcxyz01", "aé", "ßa日本", "aéb", "aAbB", "aAéÉ"]
DELIM_CHOICES = [",", ";", "|", "--", " ", "\t", "/"]


@st.composite
def tokenizer_cfg(draw, kinds=("ws", "delim", "qgram", "alpha", "alnum"), return_set=None,
                  qmax=4):
    kind = draw(st.sampled_from(kinds))
    cfg = {"kind": kind}
    if kind == "delim":
        cfg["delims"] = sorted(set(draw(st.lists(st.sampled_from(DELIM_CHOICES), min_size=1,
                                                  max_size=3))))
    elif kind == "qgram":
        cfg["q"] = draw(st.integers(1, qmax))
        cfg["padding"] = draw(st.booleans())
    cfg["return_set"] = draw(st.booleans()) if return_set is None else return_set
    return cfg


def _weighted(words):
    out = []
    for i, w in enumerate(words):
        out.extend([w] * max(1, 5 - i))
    return out


@st.composite
def vocabulary(draw, tokcfg):
    """2..14 distinct words that the tokenizer keeps intact, skew-weighted."""
    kind = tokcfg["kind"]
    if kind == "qgram":
        alpha = draw(st.sampled_from(["ab", "abc", "ab ", "aé", "abß", "aAb"]))
        words = draw(st.lists(st.text(alphabet=alpha, min_size=1, max_size=3), min_size=2,
                              max_size=8, unique=True))
        return words
    if kind == "alpha":
        alpha = draw(st.sampled_from(["ab", "abcxyz", "abAB"]))
    elif kind == "alnum":
        alpha = draw(st.sampled_from(["ab", "ab01", "abcxyz012"]))
    else:
        alpha = draw(st.sampled_from(WORD_ALPHABETS))
    words = draw(st.lists(st.text(alphabet=alpha, min_size=1, max_size=3), min_size=2,
                          max_size=14, unique=True))
    if kind == "delim":
        ds = tokcfg["delims"]
        words = [w for w in words if not any(d in w or w in d for d in ds)]
        bad = set("".join(ds))
        words = [w for w in words if not (set(w) & bad)]
        if len(words) < 2:
            words = ["p", "q", "pq"]
    return words


def _separators(tokcfg):
    kind = tokcfg["kind"]
    if kind == "ws":
        return [" ", " ", "  ", "\t", "\n"]
    if kind == "delim":
        return list(tokcfg["delims"])
    if kind == "alpha":
        return [" ", ", ", "-", " 1 ", "9"]
    if kind == "alnum":
        return [" ", ", ", "-", "_", " ! "]
    if kind == "qgram":
        return ["", "", " "]
    return [" "]


def _empties(tokcfg):
    """strings that tokenize to nothing under the tokenizer"""
    kind = tokcfg["kind"]
    if kind == "ws":
        return ["", " ", "  \t", "\n"]
    if kind == "delim":
        ds = tokcfg["delims"]
        return ["", ds[0], ds[0] * 2, "".join(ds)]
    if kind == "alpha":
        return ["", " ", "123", "1, 2", "-"]
    if kind == "alnum":
        return ["", " ", "-!-", ", "]
    if kind == "qgram":
        if tokcfg.get("padding", True) or tokcfg["q"] == 1:
            return [""]
        return ["", "a", "b", "ab"[:tokcfg["q"] - 1]]
    return [""]


@st.composite
def token_list(draw, wwords, maxsize, minsize=0):
    return draw(st.lists(st.sampled_from(wwords), min_size=minsize, max_size=maxsize))


@st.composite
def row_values(draw, tokcfg, words, nrows, maxsize, p_empty=1, p_missing=0, p_dup=1,
               missing_all=False, seeds=None):
    """nrows join values: str | None | NaN.  Weights are out of ~12."""
    ww = _weighted(words)
    seps = _separators(tokcfg)
    empties = _empties(tokcfg)
    if seeds is None:
        seeds = draw(st.lists(token_list(ww, maxsize, 1), min_size=1, max_size=3))
    kinds = (["mut"] * 6 + ["fresh"] * 3 + ["dup"] * p_dup + ["empty"] * p_empty +
             ["missing"] * p_missing)
    vals = []
    for _ in range(nrows):
        if missing_all:
            vals.append(draw(st.sampled_from([None, NAN])))
            continue
        k = draw(st.sampled_from(kinds))
        if k == "dup" and not vals:
            k = "mut"
        if k == "missing":
            vals.append(draw(st.sampled_from([None, NAN])))
        elif k == "empty":
            vals.append(draw(st.sampled_from(empties)))
        elif k == "dup":
            vals.append(draw(st.sampled_from(vals)))
        else:
            if k == "mut":
                toks = list(draw(st.sampled_from(seeds)))
                for _m in range(draw(st.integers(0, 3))):
                    op = draw(st.integers(0, 2))
                    if op == 0 and toks:
                        toks.pop(draw(st.integers(0, len(toks) - 1)))
                    elif op == 1 and len(toks) < maxsize:
                        toks.insert(draw(st.integers(0, len(toks))), draw(st.sampled_from(ww)))
                    elif toks:
                        toks[draw(st.integers(0, len(toks) - 1))] = draw(st.sampled_from(ww))
            else:
                toks = draw(token_list(ww, maxsize))
            sep = draw(st.sampled_from(seps))
            s = sep.join(toks)
            if draw(st.integers(0, 9)) == 0:
                s = sep + s + sep
            vals.append(s)
    return vals


# ------------------------------------------------------------------ tables

KEY_NAMES = ["id", "key", "A.id", "k", "ID"]
ATTR_NAMES = ["val", "name", "attr x", "title", "v"]
EXTRA_NAMES = ["e1", "zip", "price", "flag", "when", "note", "aa"]


@st.composite
def index_labels(draw, n):
    kind = draw(st.sampled_from(["range", "range", "offset", "str", "float", "dup", "dup",
                                 "perm", "neg", "multi", "datetime"]))
    if kind == "range":
        return list(range(n))
    if kind == "offset":
        return [10 + 3 * i for i in range(n)]
    if kind == "str":
        return ["r%d" % i for i in range(n)]
    if kind == "float":
        return [i + 0.5 for i in range(n)]
    if kind == "dup":
        return [i // 2 for i in range(n)]
    if kind == "neg":
        return [-i for i in range(n)]
    if kind == "multi":
        # two-level MultiIndex, second level repeating (labels are lists in the record)
        return [[i // 2, "ab"[i % 2]] for i in range(n)]
    if kind == "datetime":
        return ["ts:2001-01-%02dT00:00:00" % (1 + (i * 3) % 28) for i in range(n)]
    return list(draw(st.permutations(list(range(n)))))


@st.composite
def key_values(draw, n, kinds=("int", "str")):
    kind = draw(st.sampled_from(kinds))
    if kind == "int":
        vals = draw(st.lists(st.integers(-3, 60), min_size=n, max_size=n, unique=True))
        if draw(st.integers(0, 5)) == 0:
            # 64-bit identifiers beyond 2**53: an accidental upcast to float64 corrupts them
            vals = [2 ** 60 + 1 + 3 * v for v in vals]
        return "int", vals
    base = draw(st.lists(st.integers(0, 60), min_size=n, max_size=n, unique=True))
    pre = draw(st.sampled_from(["k", "", "é"]))
    return "obj", ["%s%d" % (pre, b) for b in base]


@st.composite
def extra_column(draw, name, n):
    kind = draw(st.sampled_from(["int", "float", "bool", "obj", "datetime"]))
    if kind == "int":
        vals = draw(st.lists(st.integers(-5, 5), min_size=n, max_size=n))
        if draw(st.integers(0, 4)) == 0:
            vals = [2 ** 61 + 7 + v for v in vals]
    elif kind == "float":
        vals = draw(st.lists(st.sampled_from([0.5, 1.0, 2.25, -3.0, NAN]), min_size=n,
                             max_size=n))
    elif kind == "bool":
        vals = draw(st.lists(st.booleans(), min_size=n, max_size=n))
    elif kind == "obj":
        vals = draw(st.lists(st.sampled_from(["x", "y y", "", None, "é"]), min_size=n,
                             max_size=n))
    else:
        vals = draw(st.lists(st.sampled_from(["2001-01-01", "1999-12-31T23:59:59", None,
                                              "2020-02-29"]), min_size=n, max_size=n))
    return {"name": name, "kind": kind, "values": vals}


@st.composite
def table(draw, join_values, max_extra=3, join_kind="obj", key_kinds=("int", "str"),
          shuffle=True, key_is_attr_ok=True):
    n = len(join_values)
    kname = draw(st.sampled_from(KEY_NAMES))
    aname = draw(st.sampled_from(ATTR_NAMES))
    kkind, kvals = draw(key_values(n, key_kinds))
    cols = [{"name": kname, "kind": kkind, "values": kvals},
            {"name": aname, "kind": join_kind, "values": list(join_values)}]
    nextra = draw(st.integers(0, max_extra))
    if nextra:
        names = draw(st.lists(st.sampled_from(EXTRA_NAMES), min_size=nextra, max_size=nextra,
                              unique=True))
        for nm in names:
            cols.append(draw(extra_column(nm, n)))
    if shuffle and len(cols) > 1:
        cols = list(draw(st.permutations(cols)))
    rec = {"columns": cols, "index": draw(index_labels(n)), "key": kname, "attr": aname}
    nm = draw(st.sampled_from([None] * 5 + [kname, aname, "idx"]))
    if nm is not None:
        rec["index_name"] = nm      # a named index, possibly named like a column
    present = [v for v in join_values if not oracle.is_missing(v)]
    if key_is_attr_ok and n and len(present) == n and len(set(present)) == n and \
            draw(st.integers(0, 7)) == 0:
        rec["key"] = aname          # the (unique, complete) join column doubles as the key
    return rec


def table_sizes(tier):
    """(max rows, max tokens per value)"""
    if tier == "quick":
        return 8, 12
    return 25, 40


@st.composite
def size_profile(draw, tier):
    mr, mt = table_sizes(tier)
    if tier == "thorough" and draw(st.integers(0, 3)) > 0:
        # most thorough cases stay small (many small beat few large)
        mr, mt = 9, 14
    return mr, mt


@st.composite
def row_count(draw, lo, hi):
    """0 and 1 rows stay reachable but most tables have several rows (non-trivial cases
    need a qualifying and a non-qualifying pair)."""
    k = draw(st.integers(0, 11))
    if k == 0:
        return draw(st.integers(lo, min(hi, max(lo, 1))))
    if k <= 2:
        return draw(st.integers(lo, hi))
    return draw(st.integers(min(max(lo, 3), hi), hi))


ALT_ATTR = "alt v"


@st.composite
def self_join_pair(draw, L, alt_values):
    """Self-join records: the right record describes the very same table (canon.build_pair
    then passes the same DataFrame object twice), joined on the same attribute or on a
    second string column holding `alt_values`."""
    L = dict(L)
    other_attr = draw(st.booleans())
    if other_attr:
        L["columns"] = list(L["columns"]) + [{"name": ALT_ATTR, "kind": "obj",
                                              "values": list(alt_values)}]
    R = copy.deepcopy(L)
    if other_attr:
        R["attr"] = ALT_ATTR
    R["same_object"] = True
    return L, R


STRING_KINDS = ["obj"] * 6 + ["strdtype", "nastring"]

MISSING_PATTERNS = ["none", "left", "right", "both", "all", "lall", "rall"]


@st.composite
def two_tables(draw, tokcfg, tier, p_empty=1, missing=None, p_dup=1, max_extra=3,
               min_rows=0, join_kind=None, self_join=None):
    """Two table records sharing a vocabulary and cluster seeds.  One case in eight (or every
    case with self_join=True) is a self-join: the same table object on both sides."""
    mr, mt = draw(size_profile(tier))
    if join_kind is None:
        # mostly object columns; also the two pandas string dtypes (NaN- and NA-backed)
        join_kind = draw(st.sampled_from(STRING_KINDS))
    words = draw(vocabulary(tokcfg))
    ww = _weighted(words)
    seeds = draw(st.lists(token_list(ww, mt, 1), min_size=1, max_size=3))
    nl = draw(row_count(min_rows, mr))
    nr = draw(row_count(min_rows, mr))
    if self_join is None:
        self_join = draw(st.integers(0, 7)) == 0
    if self_join:
        nr = nl
    if missing is None:
        missing = draw(st.sampled_from(["none", "none", "none", "left", "right", "both"]))
    pl = 3 if missing in ("left", "both") else 0
    pr = 3 if missing in ("right", "both") else 0
    lv = draw(row_values(tokcfg, words, nl, mt, p_empty, pl, p_dup,
                         missing_all=missing in ("all", "lall"), seeds=seeds))
    rv = draw(row_values(tokcfg, words, nr, mt, p_empty, pr, p_dup,
                         missing_all=missing in ("all", "rall"), seeds=seeds))
    L = draw(table(lv, max_extra, join_kind))
    if self_join:
        return draw(self_join_pair(L, rv))
    R = draw(table(rv, max_extra, draw(st.sampled_from([join_kind, join_kind, "obj"]))))
    return L, R


# ------------------------------------------------------------------ thresholds

def present(vals):
    return [i for i, v in enumerate(vals) if not oracle.is_missing(v)]


@st.composite
def sim_threshold(draw, measure, tokcfg, lvals, rvals):
    """Threshold for JACCARD/COSINE/DICE/OVERLAP_COEFFICIENT in [1e-4, 1]."""
    kind = draw(st.sampled_from(["pair", "pair", "pair", "pair", "pair", "grid", "grid", "edge"]))
    li, ri = present(lvals), present(rvals)
    if kind == "pair" and li and ri:
        tok = oracle.Tok(tokcfg, True)
        best = None
        for _ in range(3):
            i = draw(st.sampled_from(li))
            j = draw(st.sampled_from(ri))
            x, y = set(tok(lvals[i])), set(tok(rvals[j]))
            o = len(x & y)
            if o > 0:
                best = (len(x), len(y), o)
                break
        if best is not None:
            vals = oracle.sim_values(measure, *best)
            s = draw(st.sampled_from(vals))
            variant = draw(st.sampled_from(["raw", "round", "r+", "r-", "up", "down", "raw"]))
            t = {"raw": s, "round": round(s, 4), "r+": round(s, 4) + 1e-4,
                 "r-": round(s, 4) - 1e-4, "up": canon.nextafter(s, True),
                 "down": canon.nextafter(s, False)}[variant]
            if 1e-4 <= t <= 1.0:
                return float(t)
    if kind == "edge":
        return draw(st.sampled_from([1.0, 1.0, 0.9999, 0.5, 0.0001, 0.01, 0.05]))
    return draw(st.integers(1, 100)) / 100.0


@st.composite
def overlap_threshold(draw, tokcfg, lvals, rvals, fractional=False):
    tok = oracle.Tok(tokcfg, True)
    mx = 1
    for v in list(lvals) + list(rvals):
        if not oracle.is_missing(v):
            mx = max(mx, len(set(tok(v))))
    t = draw(st.integers(1, min(mx + 1, 8)))
    if fractional and draw(st.integers(0, 5)) == 0:
        # overlap_join / OverlapFilter accept any positive number; an overlap is integral, so
        # 2.5 means ">= 3", "> 2" and an empty '=' result
        return t + draw(st.sampled_from([0.5, -0.5, 0.25, 0.999]))
    return t


# ------------------------------------------------------------------ config

def col_names(T):
    return [c["name"] for c in T["columns"]]


@st.composite
def out_attrs(draw, T):
    kind = draw(st.sampled_from(["none", "none", "empty", "some", "some", "all"]))
    if kind == "none":
        return None
    if kind == "empty":
        return []
    names = col_names(T)
    if kind == "all":
        return list(draw(st.permutations(names)))
    return draw(st.lists(st.sampled_from(names), min_size=1, max_size=4))


PREFIXES = [["l_", "r_"], ["l_", "r_"], ["ltable.", "rtable."], ["L", "R"], ["", "r_"],
            ["left ", "right "]]


@st.composite
def n_jobs_value(draw, nrows):
    return draw(st.sampled_from([1, 1, 1, 1, 2, 3, max(nrows, 1), nrows + 2, -1, -2, -40]))


@st.composite
def common_config(draw, L, R, score=None):
    l_out = draw(out_attrs(L))
    r_out = draw(out_attrs(R))
    if R.get("same_object") and draw(st.booleans()):
        # the same (>= 2 distinct) attributes requested on both sides of a self-join, in
        # another order
        names = col_names(L)
        k = draw(st.integers(2, len(names)))
        l_out = list(draw(st.permutations(names)))[:k]
        r_out = draw(st.sampled_from([l_out[::-1], l_out[1:] + l_out[:1]]))
    return {
        "l_out": l_out,
        "r_out": r_out,
        "prefix": draw(st.sampled_from(PREFIXES)),
        "out_sim_score": draw(st.booleans()) if score is None else score,
        "n_jobs": draw(n_jobs_value(canon.table_len(R))),
        # the progress bar is on by default in the library: exercise that path too
        "show_progress": draw(st.integers(0, 3)) == 0,
    }


SET_JOIN_MEASURES = ["JACCARD", "COSINE", "DICE", "OVERLAP_COEFFICIENT", "OVERLAP"]


@st.composite
def set_join_case(draw, tier, measures=SET_JOIN_MEASURES, p_empty=1, missing=None,
                  tok_kinds=("ws", "delim", "qgram", "alpha", "alnum"), allow_missing=None,
                  score=None, ops=(">=", ">=", ">", "="), self_join=None):
    measure = draw(st.sampled_from(list(measures)))
    tokcfg = draw(tokenizer_cfg(tok_kinds))
    L, R = draw(two_tables(tokcfg, tier, p_empty=p_empty, missing=missing,
                           self_join=self_join))
    lv = canon.table_column(L, L["attr"])["values"]
    rv = canon.table_column(R, R["attr"])["values"]
    if measure == "OVERLAP":
        thr = draw(overlap_threshold(tokcfg, lv, rv, fractional=True))
    else:
        thr = draw(sim_threshold(measure, tokcfg, lv, rv))
    case = {"measure": measure, "tok": tokcfg, "L": L, "R": R, "threshold": thr,
            "op": draw(st.sampled_from(list(ops))),
            "allow_empty": draw(st.booleans()),
            "allow_missing": draw(st.booleans()) if allow_missing is None else allow_missing}
    case.update(draw(common_config(L, R, score)))
    return case


# ------------------------------------------------------------------ edit distance strings

@st.composite
def ed_strings(draw, n, maxlen=12, p_missing=0,
               alphabets=("ab", "abc", "ab ", "abé", "aAb")):
    alpha = draw(st.sampled_from(list(alphabets)))
    ch = st.sampled_from(list(alpha))
    seeds = draw(st.lists(st.text(alphabet=alpha, min_size=0, max_size=maxlen), min_size=1,
                          max_size=3))
    kinds = ["edit"] * 6 + ["fresh"] * 2 + ["run"] + ["empty"] + ["dup"] + ["missing"] * p_missing
    out = []
    for _ in range(n):
        k = draw(st.sampled_from(kinds))
        if k == "dup" and not out:
            k = "edit"
        if k == "missing":
            out.append(draw(st.sampled_from([None, NAN])))
        elif k == "empty":
            out.append("")
        elif k == "dup":
            out.append(draw(st.sampled_from(out)))
        elif k == "run":
            out.append(draw(ch) * draw(st.integers(1, maxlen)))
        elif k == "fresh":
            out.append(draw(st.text(alphabet=alpha, min_size=0, max_size=maxlen)))
        else:
            s = list(draw(st.sampled_from(seeds)))
            for _e in range(draw(st.integers(0, 4))):
                op = draw(st.integers(0, 2))
                if op == 0 and s:
                    s.pop(draw(st.integers(0, len(s) - 1)))
                elif op == 1 and len(s) < maxlen:
                    s.insert(draw(st.integers(0, len(s))), draw(ch))
                elif s:
                    s[draw(st.integers(0, len(s) - 1))] = draw(ch)
            out.append("".join(s))
    return out


@st.composite
def ed_tables(draw, tier, missing=None, max_extra=2, self_join=None):
    mr = 8 if tier == "quick" else draw(st.sampled_from([8, 8, 16]))
    ml = 12 if tier == "quick" else draw(st.sampled_from([12, 12, 20]))
    nl = draw(row_count(0, mr))
    nr = draw(row_count(0, mr))
    if self_join is None:
        self_join = draw(st.integers(0, 7)) == 0
    if self_join:
        nr = nl
    if missing is None:
        missing = draw(st.sampled_from(["none", "none", "none", "left", "right", "both"]))
    alpha = draw(st.sampled_from(["ab", "abc", "ab ", "abé", "aAb"]))
    vals = draw(ed_strings(nl + nr, ml, 0, (alpha,)))
    lv, rv = vals[:nl], vals[nl:]
    if missing in ("left", "both", "all", "lall"):
        lv = [draw(st.sampled_from([None, NAN]))
              if (missing in ("all", "lall") or draw(st.integers(0, 3)) == 0) else v for v in lv]
    if missing in ("right", "both", "all", "rall"):
        rv = [draw(st.sampled_from([None, NAN]))
              if (missing in ("all", "rall") or draw(st.integers(0, 3)) == 0) else v for v in rv]
    jk = draw(st.sampled_from(STRING_KINDS))
    L = draw(table(lv, max_extra, jk))
    if self_join:
        return draw(self_join_pair(L, rv))
    R = draw(table(rv, max_extra, draw(st.sampled_from(STRING_KINDS))))
    return L, R


@st.composite
def ed_join_case(draw, tier, missing=None, allow_missing=None, score=None, default_tok=True,
                 self_join=None):
    L, R = draw(ed_tables(tier, missing, self_join=self_join))
    tokcfg = {"kind": "qgram", "q": draw(st.integers(1, 4)), "padding": draw(st.booleans()),
              "return_set": draw(st.booleans())}
    if default_tok and draw(st.integers(0, 7)) == 0:
        tokcfg = None   # use the library's default tokenizer argument
    t = draw(st.integers(0, 4))
    thr = float(t) if draw(st.integers(0, 4)) == 0 else t
    case = {"measure": "EDIT_DISTANCE", "tok": tokcfg, "L": L, "R": R, "threshold": thr,
            "op": draw(st.sampled_from(["<=", "<=", "<", "="])),
            "allow_missing": draw(st.booleans()) if allow_missing is None else allow_missing}
    case.update(draw(common_config(L, R, score)))
    return case


# ------------------------------------------------------------------ candidate sets

@st.composite
def candset(draw, L, R, big=None):
    """Subset of the cross product in arbitrary order: {_id, l keys, r keys, names, extra, index}"""
    lk = canon.table_column(L, L["key"])["values"]
    rk = canon.table_column(R, R["key"])["values"]
    pairs = [(a, b) for a in lk for b in rk]
    if not pairs:
        chosen = []
    else:
        if big is None:
            big = draw(st.booleans())
        if big:
            chosen = list(draw(st.permutations(pairs)))
            drop = draw(st.integers(0, max(0, len(chosen) // 3)))
            chosen = chosen[:len(chosen) - drop]
        else:
            k = draw(st.integers(0, min(len(pairs), max(1, (len(lk) + len(rk)) // 2))))
            chosen = list(draw(st.permutations(pairs)))[:k]
    n = len(chosen)
    ids = draw(st.lists(st.integers(0, 500), min_size=n, max_size=n, unique=True))
    names = draw(st.sampled_from([["l_" + L["key"], "r_" + R["key"]], ["lk", "rk"],
                                  ["ltable.id", "rtable.id"]]))
    extra = None
    if draw(st.booleans()):
        extra = {"name": "cx", "kind": "float",
                 "values": draw(st.lists(st.sampled_from([0.5, 1.5, NAN]), min_size=n,
                                         max_size=n))}
    return {"ids": ids, "l": [p[0] for p in chosen], "r": [p[1] for p in chosen],
            "names": names, "extra": extra, "index": draw(index_labels(n)),
            "lkind": canon.table_column(L, L["key"])["kind"],
            "rkind": canon.table_column(R, R["key"])["kind"]}


def build_candset(c):
    rec = {"columns": [{"name": "_id", "kind": "int", "values": c["ids"]},
                       {"name": c["names"][0], "kind": c["lkind"], "values": c["l"]},
                       {"name": c["names"][1], "kind": c["rkind"], "values": c["r"]}],
           "index": c["index"]}
    if c.get("extra"):
        rec["columns"].append(c["extra"])
    return canon.build_table(rec)
