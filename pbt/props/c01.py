"""C01 -- set-similarity joins return every qualifying pair (must ⊆ output)."""
from .. import calls, canon, enumgen, gen, oracle
from ..env import JOINS, mk_tok
from ..runner import Component

PROPERTY = "C01"
RULE = ("random: G-TABLE x G-THRESHOLD x G-CONFIG over the five set joins, non-trivial = "
        "'must' set non-empty and some token-sharing pair is outside 'may'; E1: every size "
        "triple (n,m,o) at its critical and grid thresholds with all common tokens last; "
        "E2: every arrangement of <=U ordered tokens; enumerated instances are non-trivial "
        "by construction; 'dense': both tables hold all subsets (size<=k) of a U-token universe "
        "plus a hub token, per measure/threshold/operator/n_jobs; 'E1-wide': exact-boundary "
        "triples up to 128/256 tokens; 'bundled': slices of the books data; 'large': 40-400-row "
        "Zipf tables; 'njobs-grid': every (rows, n_jobs) split; distinct = distinct "
        "case-record digests")
ASSUMPTIONS = ["py_stringmatching tokenizers are correct (fresh instance used by the oracle)",
               "pandas/numpy construct inputs and read outputs faithfully",
               "n_jobs>1 runs the library's split/concat code on joblib's threading backend"]


def missing_sig(measure):
    return "join=%s,kind=qualifying-pair-missing" % measure


class Random(Component):
    name = "random"
    kind = "hyp"
    rule = "must non-empty and a token-sharing pair outside may"

    def examples(self, tier):
        return 250 if tier == "quick" else 2500

    def strategy(self, tier):
        return gen.set_join_case(tier)

    def check(self, case, ctx):
        L, R = canon.build_pair(case)
        tok = mk_tok(case["tok"])
        df = calls.run_join(ctx, case, L, R, tok)
        if df is None:
            return
        P = calls.Pairs(case)
        got, _ = calls.key_pairs(df, case)
        must = P.of("must")
        for k in must:
            if got[k] == 0:
                ctx.violation(missing_sig(case["measure"]),
                              "%s_join threshold=%r op=%s: pair %r sizes/overlap %r qualifies "
                              "but is not in the output" % (case["measure"].lower(),
                                                            case["threshold"], case["op"], k,
                                                            P.stats[k]))
        sharing_no = any(c == "no" and P.stats[k][2] > 0 for k, c in P.cat.items())
        ctx.nontrivial(bool(must) and sharing_no)
        ctx.label("measure=" + case["measure"])
        ctx.label("op=" + case["op"])
        ctx.label("tok=" + case["tok"]["kind"])
        ctx.label("bag-tokenizer", not case["tok"]["return_set"])
        ctx.label("n_jobs>1", case["n_jobs"] not in (1,))
        ctx.label("has-missing", P.count("missing") > 0)
        ctx.label("has-straddle", P.count("straddle") > 0)
        ctx.label("has-must", bool(must))
        ctx.label("empty-table", len(L) == 0 or len(R) == 0)


class E1(Component):
    name = "E1"
    kind = "enum"
    exhaustive = True
    rule = "every (n,m,o) batch instance is in 'must' with its common tokens behind the prefix"

    def bounds(self, tier):
        return {"N": 36 if tier == "quick" else 72, "measures": ["JACCARD", "COSINE", "DICE"]}

    def shards(self, tier):
        return 16

    def cases(self, tier):
        return enumgen.e1_cases(self.bounds(tier)["N"])

    def check(self, case, ctx):
        triples = [tuple(t) for t in case["triples"]]
        L, R = enumgen.e1_tables(triples)
        tok = mk_tok(enumgen.WS)
        m, t = case["measure"], case["threshold"]
        df = ctx.lib(JOINS[m], L, R, "id", "id", "v", "v", tok, t, ">=", True, False, None,
                     None, "l_", "r_", False, 1, False)
        if df is None:
            return
        got = set(zip(df["l_id"].tolist(), df["r_id"].tolist()))
        for i, (n, mm, o) in enumerate(triples):
            if oracle.classify(m, n, mm, o, t, ">=") == "must" and (i, i) not in got:
                ctx.violation(missing_sig(m),
                              "%s_join threshold=%r: left %d tokens, right %d tokens, %d common "
                              "(all rarest-last) qualifies but is not returned"
                              % (m.lower(), t, n, mm, o))
        ctx.nontrivial(True)
        ctx.label("E1:" + m)

    def shrink_case(self, case, ctx):
        for tr in case["triples"]:
            c = dict(case)
            c["triples"] = [tr]
            try:
                self.check(c, ctx)
            except Exception:
                return c
        return case


class E2(Component):
    name = "E2"
    kind = "enum"
    exhaustive = True
    rule = "every arrangement instance is in 'must' (common tokens anywhere in the order)"

    def bounds(self, tier):
        return {"U": 7 if tier == "quick" else 10,
                "measures": ["JACCARD", "COSINE", "DICE", "OVERLAP"]}

    def shards(self, tier):
        return 16

    def cases(self, tier):
        return enumgen.e2_cases(self.bounds(tier)["U"])

    def check(self, case, ctx):
        m, t = case["measure"], case["threshold"]
        L, R, pairs = enumgen.e2_tables(case["instances"], case["filler"], case["orient"])
        tok = mk_tok(enumgen.WS)
        if m == "OVERLAP":
            df = ctx.lib(JOINS[m], L, R, "id", "id", "v", "v", tok, t, ">=", False, None, None,
                         "l_", "r_", False, 1, False)
        else:
            df = ctx.lib(JOINS[m], L, R, "id", "id", "v", "v", tok, t, ">=", True, False, None,
                         None, "l_", "r_", False, 1, False)
        if df is None:
            return
        got = set(zip(df["l_id"].tolist(), df["r_id"].tolist()))
        for a, pr in zip(case["instances"], pairs):
            n, mm, o = enumgen.counts(a)
            if case["orient"] != "xl":
                n, mm = mm, n
            if oracle.classify(m, n, mm, o, t, ">=") == "must" and pr not in got:
                ctx.violation(missing_sig(m),
                              "%s_join threshold=%r: arrangement %s (x/y/both by global token "
                              "order, x on the %s) qualifies but is not returned"
                              % (m.lower(), t, a, "left" if case["orient"] == "xl" else "right"))
            # the filler row pairs with the row on the other side
            k = pr[0][1:-1]
            nf = a.count("x") + a.count("y")
            if nf:
                if case["filler"] == "left":
                    other = mm
                    of = (a.count("y") if case["orient"] == "xl" else a.count("x"))
                    fp = ("f" + k, pr[1])
                    cl = oracle.classify(m, nf, other, of, t, ">=") if of else "no"
                else:
                    other = n
                    of = (a.count("x") if case["orient"] == "xl" else a.count("y"))
                    fp = (pr[0], "f" + k)
                    cl = oracle.classify(m, other, nf, of, t, ">=") if of else "no"
                if cl == "must" and fp not in got:
                    ctx.violation(missing_sig(m),
                                  "%s_join threshold=%r: filler pair %r of arrangement %s "
                                  "qualifies but is not returned" % (m.lower(), t, fp, a))
        ctx.nontrivial(True)
        ctx.label("E2:" + m)

    def shrink_case(self, case, ctx):
        for a in case["instances"]:
            c = dict(case)
            c["instances"] = [a]
            try:
                self.check(c, ctx)
            except Exception:
                return c
        return case


class E1Wide(E1):
    """Sparse but wide size sweep: all exact-boundary triples (similarity == a two-decimal
    threshold in rational arithmetic) with up to N tokens per value."""
    name = "E1-wide"
    rule = "every exact-boundary (n,m,o) instance up to N tokens, common tokens rarest-last"

    def bounds(self, tier):
        return {"N": 128 if tier == "quick" else 256, "grid": 100,
                "measures": ["JACCARD", "COSINE", "DICE"]}

    def cases(self, tier):
        return enumgen.e1_exact_cases(self.bounds(tier)["N"])


class NJobsGrid(Component):
    """Completeness under every split: dense (right rows, n_jobs) grid for the five set joins;
    the required pairs (identical values) must be returned at every n_jobs."""
    name = "njobs-grid"
    kind = "enum"
    exhaustive = True
    rule = "every (join, right rows <= R, n_jobs <= rows+2) cell"

    def bounds(self, tier):
        return {"rows": 40 if tier == "quick" else 128, "joins": list(gen.SET_JOIN_MEASURES)}

    def shards(self, tier):
        return 16

    def cases(self, tier):
        for m in gen.SET_JOIN_MEASURES:
            for r in range(1, self.bounds(tier)["rows"] + 1):
                yield {"measure": m, "rows": r}

    def check(self, case, ctx):
        from .c10 import grid_tables
        m, r = case["measure"], case["rows"]
        L, R = grid_tables(r)
        must = set((i % 5, 100 + i) for i in range(r) if i % 3 != 2 and i % 7 != 3)
        nsplit = int(R["v"].notna().sum())
        t = 2 if m == "OVERLAP" else 0.9
        for k in [1] + list(range(2, nsplit + 3)):
            tok = mk_tok(enumgen.WS)
            with calls.backend(k):
                if m == "OVERLAP":
                    df = ctx.lib(JOINS[m], L, R, "id", "id", "v", "v", tok, t, ">=", False, None,
                                 None, "l_", "r_", False, k, False)
                else:
                    df = ctx.lib(JOINS[m], L, R, "id", "id", "v", "v", tok, t, ">=", True, False,
                                 None, None, "l_", "r_", False, k, False)
            if df is None:
                continue
            got = set(zip(df["l_id"].tolist(), df["r_id"].tolist()))
            if not must <= got:
                ctx.violation(missing_sig(m),
                              "%s_join with %d right rows (%d with a value) at n_jobs=%d does not "
                              "return the qualifying pairs %r"
                              % (m.lower(), r, nsplit, k, sorted(must - got)[:3]))
        ctx.nontrivial(bool(must))
        ctx.label("njobs-grid:" + m)


from .c02 import Bundled, Dense, Large  # noqa: E402  (completeness is asserted by these too)

class SelfJoin(Random):
    """Every case passes the very same DataFrame object as left and right table, joined on the
    same attribute or on two different string columns of it."""
    name = "selfjoin"

    def examples(self, tier):
        return 250 if tier == "quick" else 1000

    def strategy(self, tier):
        return gen.set_join_case(tier, self_join=True)


COMPONENTS = [Random(), E1(), E1Wide(), E2(), Dense(), Bundled(), Large(), NJobsGrid(),
              SelfJoin()]
