"""C02 -- set-similarity joins return only qualifying pairs, once, with the true score."""
from hypothesis import strategies as st

from .. import calls, canon, enumgen, gen, oracle
from ..env import JOINS, mk_tok
from ..runner import Component

PROPERTY = "C02"
RULE = ("G-TABLE x G-THRESHOLD x G-CONFIG over the five set joins; non-trivial = the output "
        "has a row over present values and the inputs contain a token-sharing pair outside "
        "'may' (a wrong comparison would have admitted it); 'E1-sound': E1 size-sweep batch tables "
        "x three operators, every returned row must be an instance pair with its true score; "
        "'dense': all-subsets tables where every left row is a candidate of every right row; "
        "distinct = case digests")
ASSUMPTIONS = ["py_stringmatching tokenizers are correct (fresh instance used by the oracle)",
               "score tolerance for JACCARD/COSINE/DICE: 4-decimal value within 5e-5+1e-9 of "
               "an admitted double; exact for overlap coefficient and overlap"]


def check_join_soundness(case, ctx, df, P):
    """Shared by C02 and others: every non-missing output row is sound."""
    m = case["measure"]
    got, order = calls.key_pairs(df, case)
    scores = None
    if case["out_sim_score"]:
        if "_sim_score" not in df.columns:
            ctx.violation("join=%s,kind=score-column-absent" % m, "no _sim_score column")
        else:
            scores = df["_sim_score"].tolist()
    elif "_sim_score" in df.columns:
        ctx.violation("join=%s,kind=score-column-unrequested" % m, "_sim_score present")
    for k, c in got.items():
        if k not in P.cat:
            ctx.violation("join=%s,kind=unknown-key" % m,
                          "output names key pair %r that does not exist in the inputs" % (k,))
        elif c > 1 and P.cat[k] != "missing":
            ctx.violation("join=%s,kind=duplicate-pair" % m,
                          "key pair %r occurs %d times in the output" % (k, c))
    n_scored = 0
    for pos, k in enumerate(order):
        cat = P.cat.get(k)
        if cat is None or cat == "missing":
            continue
        st = P.stats[k]
        sc = scores[pos] if scores is not None else None
        if cat == "bothempty":
            # admission itself is C09's business; the score is stated here
            if scores is not None and m != "OVERLAP" and canon.cv(sc) != 1:
                ctx.violation("join=%s,kind=empty-pair-score" % m,
                              "empty-empty pair %r has score %r, expected 1.0" % (k, sc))
            continue
        if cat in ("no", "oneempty"):
            ctx.violation("join=%s,kind=non-qualifying-pair-returned" % m,
                          "%s_join threshold=%r op=%s returned pair %r with sizes/overlap %r "
                          "(similarity %r) which does not satisfy the comparison"
                          % (m.lower(), case["threshold"], case["op"], k, st,
                             oracle.sim_values(m, *st)))
        n_scored += 1
        if scores is not None and not oracle.score_ok(m, st[0], st[1], st[2], sc):
            ctx.violation("join=%s,kind=wrong-score" % m,
                          "pair %r sizes/overlap %r: _sim_score=%r, true similarity %r"
                          % (k, st, sc, oracle.sim_values(m, *st)))
    return n_scored


class Random(Component):
    name = "random"
    kind = "hyp"
    rule = RULE

    def examples(self, tier):
        return 500 if tier == "quick" else 2500

    def strategy(self, tier):
        return gen.set_join_case(tier)

    def check(self, case, ctx):
        L, R = canon.build_pair(case)
        tok = mk_tok(case["tok"])
        df = calls.run_join(ctx, case, L, R, tok)
        if df is None:
            return
        P = calls.Pairs(case)
        n_scored = check_join_soundness(case, ctx, df, P)
        sharing_no = any(c == "no" and P.stats[k][2] > 0 for k, c in P.cat.items())
        ctx.nontrivial(n_scored > 0 and sharing_no)
        ctx.label("measure=" + case["measure"])
        ctx.label("op=" + case["op"])
        ctx.label("score-requested", case["out_sim_score"])
        ctx.label("attrs-requested", case["l_out"] is not None or case["r_out"] is not None)
        ctx.label("n_jobs>1", case["n_jobs"] != 1)
        ctx.label("has-missing", P.count("missing") > 0)
        ctx.label("has-straddle", P.count("straddle") > 0)
        ctx.label("output-nonempty", n_scored > 0)


class E1Sound(Component):
    """Soundness / row identity at scale: E1 size-sweep tables (hundreds of rows, thousands of
    distinct tokens, every instance pair at / next to the threshold, no token shared across
    instances), all three operators, score column on."""
    name = "E1-sound"
    kind = "enum"
    exhaustive = True
    rule = "every E1 batch x operator: each returned row is an instance pair with its true score"

    def bounds(self, tier):
        return {"N": 18 if tier == "quick" else 40, "measures": ["JACCARD", "COSINE", "DICE"],
                "ops": [">=", ">", "="]}

    def shards(self, tier):
        return 16

    def cases(self, tier):
        for c in enumgen.e1_cases(self.bounds(tier)["N"], chunk=150):
            for op in (">=", ">", "="):
                d = dict(c)
                d["op"] = op
                yield d

    def check(self, case, ctx):
        triples = [tuple(t) for t in case["triples"]]
        L, R = enumgen.e1_tables(triples)
        m, t, op = case["measure"], case["threshold"], case["op"]
        df = ctx.lib(JOINS[m], L, R, "id", "id", "v", "v", mk_tok(enumgen.WS), t, op, True,
                     False, None, None, "l_", "r_", True, 1, False)
        if df is None:
            return
        seen = set()
        for i, j, sc in zip(df["l_id"].tolist(), df["r_id"].tolist(), df["_sim_score"].tolist()):
            if (i, j) in seen:
                ctx.violation("join=%s,kind=duplicate-pair" % m,
                              "%s_join on an E1 batch: pair (%r, %r) returned twice"
                              % (m.lower(), i, j))
            seen.add((i, j))
            if i != j:
                ctx.violation("join=%s,kind=non-qualifying-pair-returned" % m,
                              "%s_join threshold=%r op=%s on an E1 batch returned (%r, %r): rows "
                              "of different instances share no token (sizes %r and %r)"
                              % (m.lower(), t, op, i, j, triples[i], triples[j]))
                continue
            n, mm, o = triples[i]
            if oracle.classify(m, n, mm, o, t, op) == "no":
                ctx.violation("join=%s,kind=non-qualifying-pair-returned" % m,
                              "%s_join threshold=%r op=%s returned the pair with sizes/overlap "
                              "%r (similarity %r)" % (m.lower(), t, op, triples[i],
                                                      oracle.sim_values(m, n, mm, o)))
            if not oracle.score_ok(m, n, mm, o, sc):
                ctx.violation("join=%s,kind=wrong-score" % m,
                              "%s_join on an E1 batch: pair with sizes/overlap %r has _sim_score "
                              "%r, true similarity %r" % (m.lower(), triples[i], sc,
                                                          oracle.sim_values(m, n, mm, o)))
        ctx.nontrivial(len(seen) > 0)
        ctx.label("E1-sound:%s:%s" % (m, op))


def dense_rows(universe, maxk):
    import itertools
    rows = []
    for k in range(0, maxk + 1):
        for c in itertools.combinations(range(universe), k):
            rows.append(c)
    return rows


class Dense(Component):
    """Dense candidate tables: both tables hold every subset (size <= k) of a U-token universe
    plus one hub token, so every left row is a candidate of every right row, token ranks reach
    two digits, and one join verifies thousands of (left, right) combinations with many equal
    sizes and overlapping token sets.  Every output row is checked (membership and score) and
    every required pair must be present."""
    name = "dense"
    kind = "enum"
    exhaustive = True
    rule = "every (measure, threshold, operator) over the all-subsets tables"

    def bounds(self, tier):
        return {"universe": 13 if tier == "quick" else 15, "max_subset": 2 if tier == "quick" else 3,
                "measures": gen.SET_JOIN_MEASURES}

    def shards(self, tier):
        return 16

    def budget_s(self, tier):
        return 200 if tier == "quick" else 3000

    def cases(self, tier):
        b = self.bounds(tier)
        for m in b["measures"]:
            ts = [1, 2, 3] if m == "OVERLAP" else [0.05, 1.0 / 3, 0.5, 0.6667, 1.0]
            for t in ts:
                for op in (">=", ">", "="):
                    for nj in (1, 3):
                        yield {"measure": m, "threshold": t, "op": op, "n_jobs": nj,
                               "universe": b["universe"], "max_subset": b["max_subset"]}

    def check(self, case, ctx):
        import pandas as pd
        U, K = case["universe"], case["max_subset"]
        subsets = dense_rows(U, K)
        names = [chr(ord("a") + i) for i in range(U)]
        vals = [" ".join([names[i] for i in c] + ["zhub"]) for c in subsets]
        n = len(vals)
        L = pd.DataFrame({"id": list(range(n)), "v": pd.Series(vals, dtype=object)})
        R = pd.DataFrame({"id": list(range(1000, 1000 + n)), "v": pd.Series(vals, dtype=object)})
        m, t, op = case["measure"], case["threshold"], case["op"]
        tok = mk_tok({"kind": "ws", "return_set": True})
        with calls.backend(case["n_jobs"]):
            if m == "OVERLAP":
                df = ctx.lib(JOINS[m], L, R, "id", "id", "v", "v", tok, t, op, False, None, None,
                             "l_", "r_", True, case["n_jobs"], False)
            else:
                df = ctx.lib(JOINS[m], L, R, "id", "id", "v", "v", tok, t, op, True, False, None,
                             None, "l_", "r_", True, case["n_jobs"], False)
        if df is None:
            return
        sets = [frozenset(c) for c in subsets]
        got = {}
        for i, j, sc in zip(df["l_id"].tolist(), df["r_id"].tolist(), df["_sim_score"].tolist()):
            if (i, j) in got:
                ctx.violation("join=%s,kind=duplicate-pair" % m,
                              "%s_join on the dense tables returned (%r, %r) twice"
                              % (m.lower(), i, j))
            got[(i, j)] = sc
        for i in range(n):
            for j in range(n):
                a, b = len(sets[i]) + 1, len(sets[j]) + 1
                o = len(sets[i] & sets[j]) + 1
                cl = oracle.classify(m, a, b, o, t, op)
                k = (i, 1000 + j)
                if k in got:
                    if cl == "no":
                        ctx.violation("join=%s,kind=non-qualifying-pair-returned" % m,
                                      "%s_join threshold=%r op=%s n_jobs=%d on the dense tables "
                                      "returned (%r, %r) with sizes/overlap %r"
                                      % (m.lower(), t, op, case["n_jobs"], vals[i], vals[j],
                                         (a, b, o)))
                    if not oracle.score_ok(m, a, b, o, got[k]):
                        ctx.violation("join=%s,kind=wrong-score" % m,
                                      "%s_join threshold=%r on the dense tables: pair (%r, %r) "
                                      "sizes/overlap %r has _sim_score %r, true similarity %r"
                                      % (m.lower(), t, vals[i], vals[j], (a, b, o), got[k],
                                         oracle.sim_values(m, a, b, o)))
                elif cl == "must":
                    ctx.violation("join=%s,kind=qualifying-pair-missing" % m,
                                  "%s_join threshold=%r op=%s on the dense tables does not "
                                  "return (%r, %r) with sizes/overlap %r"
                                  % (m.lower(), t, op, vals[i], vals[j], (a, b, o)))
        ctx.nontrivial(len(got) > 0 and len(got) < n * n)
        ctx.label("dense:%s" % m)


_BOOKS = {}


def books_sample(offset, size):
    """Deterministic slices of the bundled books tables (real, Zipf-like token frequencies)."""
    from ..env import ssj
    if "t" not in _BOOKS:
        A, B = ssj.load_books_dataset()
        _BOOKS["t"] = (A[["ID", "Title", "Author"]].copy(), B[["ID", "Title", "Author"]].copy())
    A, B = _BOOKS["t"]
    a = A.iloc[offset % max(1, len(A) - size):][:size].copy()
    b = B.iloc[(offset * 7) % max(1, len(B) - size):][:size].copy()
    for df in (a, b):
        for c in ("Title", "Author"):
            df[c] = df[c].astype(object)
    return a, b


class Bundled(Component):
    """Slices of the bundled books data against the brute-force reference model: completeness,
    soundness and scores on real token-frequency distributions (titles of 1-30 words, 3-grams
    of author names)."""
    name = "bundled"
    kind = "enum"
    exhaustive = False
    rule = "every (slice, attribute, tokenizer, measure, threshold) configuration listed"

    def bounds(self, tier):
        return {"slice_rows": 120 if tier == "quick" else 400,
                "slices": 4 if tier == "quick" else 12}

    def shards(self, tier):
        return 16

    def budget_s(self, tier):
        return 200 if tier == "quick" else 3000

    def cases(self, tier):
        b = self.bounds(tier)
        cfgs = [("Title", {"kind": "ws", "return_set": True}),
                ("Author", {"kind": "qgram", "q": 3, "padding": True, "return_set": False}),
                ("Title", {"kind": "alnum", "return_set": True})]
        for k in range(b["slices"]):
            for attr, tok in cfgs:
                for m in gen.SET_JOIN_MEASURES:
                    ts = [2, 4] if m == "OVERLAP" else [0.3, 0.5, 0.8]
                    for t in ts:
                        yield {"offset": 211 * k + 17, "rows": b["slice_rows"], "attr": attr,
                               "tok": tok, "measure": m, "threshold": t,
                               "op": [">=", ">", "="][k % 3], "n_jobs": [1, 3][k % 2]}

    def check(self, case, ctx):
        A, B = books_sample(case["offset"], case["rows"])
        m, t, op, attr = case["measure"], case["threshold"], case["op"], case["attr"]
        tok = mk_tok(case["tok"])
        with calls.backend(case["n_jobs"]):
            if m == "OVERLAP":
                df = ctx.lib(JOINS[m], A, B, "ID", "ID", attr, attr, tok, t, op, False, None, None,
                             "l_", "r_", True, case["n_jobs"], False)
            else:
                df = ctx.lib(JOINS[m], A, B, "ID", "ID", attr, attr, tok, t, op, True, False,
                             None, None, "l_", "r_", True, case["n_jobs"], False)
        if df is None:
            return
        otok = oracle.Tok(case["tok"], True)
        lk, rk = A["ID"].tolist(), B["ID"].tolist()
        ls = [None if oracle.is_missing(v) else frozenset(otok(v)) for v in A[attr].tolist()]
        rs = [None if oracle.is_missing(v) else frozenset(otok(v)) for v in B[attr].tolist()]
        got = {}
        for i, j, sc in zip(df["l_ID"].tolist(), df["r_ID"].tolist(), df["_sim_score"].tolist()):
            if (i, j) in got:
                ctx.violation("join=%s,kind=duplicate-pair" % m, "books slice: (%r, %r) twice"
                              % (i, j))
            got[(i, j)] = sc
        who = "%s_join(%s, %s) threshold=%r op=%s n_jobs=%d on books rows %d.." % (
            m.lower(), attr, case["tok"]["kind"], t, op, case["n_jobs"], case["offset"])
        nmust = 0
        for i, x in enumerate(ls):
            for j, y in enumerate(rs):
                k = (lk[i], rk[j])
                if x is None or y is None or (not x and not y):
                    continue
                if not x or not y:
                    cl = "no"
                else:
                    cl = oracle.classify(m, len(x), len(y), len(x & y), t, op)
                if k in got:
                    if cl == "no":
                        ctx.violation("join=%s,kind=non-qualifying-pair-returned" % m,
                                      "%s returned %r with sizes/overlap %r"
                                      % (who, k, (len(x), len(y), len(x & y))))
                    elif not oracle.score_ok(m, len(x), len(y), len(x & y), got[k]):
                        ctx.violation("join=%s,kind=wrong-score" % m,
                                      "%s: %r scored %r, sizes/overlap %r"
                                      % (who, k, got[k], (len(x), len(y), len(x & y))))
                elif cl == "must":
                    ctx.violation("join=%s,kind=qualifying-pair-missing" % m,
                                  "%s does not return %r with sizes/overlap %r"
                                  % (who, k, (len(x), len(y), len(x & y))))
                if cl == "must":
                    nmust += 1
        ctx.nontrivial(nmust > 0)
        ctx.label("bundled:%s:%s" % (m, attr))


def large_tables(seed, nl, nr, vocab, maxtok, kind="tokens"):
    """Deterministic larger tables from a Hypothesis-drawn seed: Zipf-skewed vocabulary,
    clusters of near-duplicate rows, big integer keys, non-default index labels."""
    import random

    import pandas as pd
    rnd = random.Random(seed)
    words = ["w%d" % i for i in range(vocab)]
    weights = [1.0 / (i + 1) for i in range(vocab)]
    nbase = max(2, (nl + nr) // 6)
    bases = [rnd.choices(words, weights, k=rnd.randint(1, maxtok)) for _ in range(nbase)]

    def row():
        r = rnd.random()
        if r < 0.03:
            return ""
        if r < 0.06:
            return None
        toks = list(rnd.choice(bases))
        for _ in range(rnd.randint(0, 3)):
            op = rnd.randint(0, 2)
            if op == 0 and toks:
                toks.pop(rnd.randrange(len(toks)))
            elif op == 1:
                toks.insert(rnd.randint(0, len(toks)), rnd.choices(words, weights)[0])
            elif toks:
                toks[rnd.randrange(len(toks))] = rnd.choices(words, weights)[0]
        return " ".join(toks)

    lv = [row() for _ in range(nl)]
    rv = [row() for _ in range(nr)]
    # key style varies with the seed: 64-bit ints vs fixed-width strings, small ints on both
    # sides (1..n: concatenations such as (1,23)/(12,3) coincide), or variable-width strings
    style = seed % 3
    if style == 0:
        lkeys = [2 ** 60 + 1 + 7919 * i for i in range(nl)]
        rkeys = pd.Series(["r%06d" % (nr - i) for i in range(nr)], dtype=object)
    elif style == 1:
        lkeys = list(range(1, nl + 1))
        rkeys = list(range(nr, 0, -1))
    else:
        lkeys = pd.Series(["%d" % (3 * i) for i in range(nl)], dtype=object)
        rkeys = pd.Series(["%dx" % i for i in range(nr)], dtype=object)
    L = pd.DataFrame({"extra": [i % 7 for i in range(nl)], "key": lkeys,
                      "val": pd.Series(lv, dtype=object)})
    L.index = pd.Index([(i * 37) % (nl + 3) for i in range(nl)])
    R = pd.DataFrame({"val": pd.Series(rv, dtype=object), "key": rkeys})
    R.index = pd.Index(["x%d" % (i // 2) for i in range(nr)])
    return L, R, lv, rv


@st.composite
def large_case(draw, tier):
    big = tier == "thorough"
    return {"seed": draw(st.integers(0, 2 ** 32 - 1)),
            "nl": draw(st.integers(40, 400 if big else 160)),
            "nr": draw(st.integers(40, 400 if big else 160)),
            "vocab": draw(st.sampled_from([30, 120, 600])),
            "maxtok": draw(st.sampled_from([6, 25, 60])),
            "measure": draw(st.sampled_from(gen.SET_JOIN_MEASURES)),
            "tgrid": draw(st.integers(1, 100)),
            "op": draw(st.sampled_from([">=", ">=", ">", "="])),
            "allow_missing": draw(st.booleans()),
            "n_jobs": draw(st.sampled_from([1, 1, 2, 3, 5, 7, 11, 12, 13, 14, 15, 18, 20, 24, -1])),
            "attrs": draw(st.booleans())}


class Large(Component):
    """Larger synthetic tables (40-400 rows, up to 60 tokens per value, up to 600 distinct
    tokens, Zipf frequencies, near-duplicate clusters) against the brute-force model:
    completeness, soundness, uniqueness, scores."""
    name = "large"
    kind = "hyp"
    rule = "'must' set non-empty and a token-sharing pair outside 'may'"

    def examples(self, tier):
        return 25 if tier == "quick" else 300

    def strategy(self, tier):
        return large_case(tier)

    def check(self, case, ctx):
        L, R, lv, rv = large_tables(case["seed"], case["nl"], case["nr"], case["vocab"],
                                    case["maxtok"])
        m, op = case["measure"], case["op"]
        t = max(1, case["tgrid"] // 12) if m == "OVERLAP" else case["tgrid"] / 100.0
        tok = mk_tok({"kind": "ws", "return_set": True})
        la = ["extra"] if case["attrs"] else None
        with calls.backend(case["n_jobs"]):
            if m == "OVERLAP":
                df = ctx.lib(JOINS[m], L, R, "key", "key", "val", "val", tok, t, op,
                             case["allow_missing"], la, None, "l_", "r_", True, case["n_jobs"],
                             False)
            else:
                df = ctx.lib(JOINS[m], L, R, "key", "key", "val", "val", tok, t, op, True,
                             case["allow_missing"], la, None, "l_", "r_", True, case["n_jobs"],
                             False)
        if df is None:
            return
        lk, rk = L["key"].tolist(), R["key"].tolist()
        ls = [None if v is None else frozenset(v.split()) for v in lv]
        rs = [None if v is None else frozenset(v.split()) for v in rv]
        got = {}
        for i, j, sc in zip(df["l_key"].tolist(), df["r_key"].tolist(),
                            df["_sim_score"].tolist()):
            got[(i, j)] = got.get((i, j), []) + [sc]
        who = "%s_join threshold=%r op=%s n_jobs=%d on %dx%d synthetic rows (seed %d)" % (
            m.lower(), t, op, case["n_jobs"], case["nl"], case["nr"], case["seed"])
        nmust = nshare_no = 0
        for i, x in enumerate(ls):
            for j, y in enumerate(rs):
                k = (lk[i], rk[j])
                scs = got.get(k)
                if x is None or y is None:
                    if scs is not None and not case["allow_missing"]:
                        ctx.violation("join=%s,kind=missing-row-returned" % m,
                                      "%s returned %r which has a missing value" % (who, k))
                    continue
                if scs is not None and len(scs) > 1:
                    ctx.violation("join=%s,kind=duplicate-pair" % m, "%s returned %r %d times"
                                  % (who, k, len(scs)))
                if not x and not y:
                    continue
                o = len(x & y)
                cl = "no" if (not x or not y) else oracle.classify(m, len(x), len(y), o, t, op)
                if scs is not None:
                    if cl == "no":
                        ctx.violation("join=%s,kind=non-qualifying-pair-returned" % m,
                                      "%s returned %r with sizes/overlap %r"
                                      % (who, k, (len(x), len(y), o)))
                    elif not oracle.score_ok(m, len(x), len(y), o, scs[0]):
                        ctx.violation("join=%s,kind=wrong-score" % m,
                                      "%s: %r scored %r, sizes/overlap %r"
                                      % (who, k, scs[0], (len(x), len(y), o)))
                elif cl == "must":
                    ctx.violation("join=%s,kind=qualifying-pair-missing" % m,
                                  "%s does not return %r with sizes/overlap %r"
                                  % (who, k, (len(x), len(y), o)))
                if cl == "must":
                    nmust += 1
                elif cl == "no" and o > 0:
                    nshare_no += 1
        ctx.nontrivial(nmust > 0 and nshare_no > 0)
        ctx.label("large:" + m)
        ctx.label("large:n_jobs>1", case["n_jobs"] != 1)


class SelfJoin(Random):
    """Every case passes the very same DataFrame object as left and right table, joined on the
    same attribute or on two different string columns of it."""
    name = "selfjoin"

    def examples(self, tier):
        return 300 if tier == "quick" else 1000

    def strategy(self, tier):
        return gen.set_join_case(tier, self_join=True)


COMPONENTS = [Random(), E1Sound(), Dense(), Bundled(), Large(), SelfJoin()]
