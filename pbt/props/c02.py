"""C02 -- set-similarity joins return only qualifying pairs, once, with the true score."""
from .. import calls, canon, enumgen, gen, oracle
from ..env import JOINS, mk_tok
from ..runner import Component

PROPERTY = "C02"
RULE = ("G-TABLE x G-THRESHOLD x G-CONFIG over the five set joins; non-trivial = the output "
        "has a row over present values and the inputs contain a token-sharing pair outside "
        "'may' (a wrong comparison would have admitted it); distinct = case digests")
ASSUMPTIONS = ["py_stringmatching tokenizers are correct (fresh instance used by the oracle)",
               "score tolerance for JACCARD/COSINE/DICE: 4-decimal value within 5e-5+1e-9 of "
               "an admitted double; exact for overlap coefficient and overlap"]


def check_join_soundness(case, ctx, df, P):
    """Shared by C02 and others: every non-missing output row is sound."""
    m = case["measure"]
    got, order = calls.key_pairs(df, case)
    scores = None
    if case["out_sim_score"]:
        if "_sim_score" not in df.columns:
            ctx.violation("join=%s,kind=score-column-absent" % m, "no _sim_score column")
        else:
            scores = df["_sim_score"].tolist()
    elif "_sim_score" in df.columns:
        ctx.violation("join=%s,kind=score-column-unrequested" % m, "_sim_score present")
    for k, c in got.items():
        if k not in P.cat:
            ctx.violation("join=%s,kind=unknown-key" % m,
                          "output names key pair %r that does not exist in the inputs" % (k,))
        elif c > 1 and P.cat[k] != "missing":
            ctx.violation("join=%s,kind=duplicate-pair" % m,
                          "key pair %r occurs %d times in the output" % (k, c))
    n_scored = 0
    for pos, k in enumerate(order):
        cat = P.cat.get(k)
        if cat is None or cat == "missing":
            continue
        st = P.stats[k]
        sc = scores[pos] if scores is not None else None
        if cat == "bothempty":
            # admission itself is C09's business; the score is stated here
            if scores is not None and m != "OVERLAP" and canon.cv(sc) != 1:
                ctx.violation("join=%s,kind=empty-pair-score" % m,
                              "empty-empty pair %r has score %r, expected 1.0" % (k, sc))
            continue
        if cat in ("no", "oneempty"):
            ctx.violation("join=%s,kind=non-qualifying-pair-returned" % m,
                          "%s_join threshold=%r op=%s returned pair %r with sizes/overlap %r "
                          "(similarity %r) which does not satisfy the comparison"
                          % (m.lower(), case["threshold"], case["op"], k, st,
                             oracle.sim_values(m, *st)))
        n_scored += 1
        if scores is not None and not oracle.score_ok(m, st[0], st[1], st[2], sc):
            ctx.violation("join=%s,kind=wrong-score" % m,
                          "pair %r sizes/overlap %r: _sim_score=%r, true similarity %r"
                          % (k, st, sc, oracle.sim_values(m, *st)))
    return n_scored


class Random(Component):
    name = "random"
    kind = "hyp"
    rule = RULE

    def examples(self, tier):
        return 500 if tier == "quick" else 2500

    def strategy(self, tier):
        return gen.set_join_case(tier)

    def check(self, case, ctx):
        L, R = canon.build_table(case["L"]), canon.build_table(case["R"])
        tok = mk_tok(case["tok"])
        df = calls.run_join(ctx, case, L, R, tok)
        if df is None:
            return
        P = calls.Pairs(case)
        n_scored = check_join_soundness(case, ctx, df, P)
        sharing_no = any(c == "no" and P.stats[k][2] > 0 for k, c in P.cat.items())
        ctx.nontrivial(n_scored > 0 and sharing_no)
        ctx.label("measure=" + case["measure"])
        ctx.label("op=" + case["op"])
        ctx.label("score-requested", case["out_sim_score"])
        ctx.label("attrs-requested", case["l_out"] is not None or case["r_out"] is not None)
        ctx.label("n_jobs>1", case["n_jobs"] != 1)
        ctx.label("has-missing", P.count("missing") > 0)
        ctx.label("has-straddle", P.count("straddle") > 0)
        ctx.label("output-nonempty", n_scored > 0)


class E1Sound(Component):
    """Soundness / row identity at scale: E1 size-sweep tables (hundreds of rows, thousands of
    distinct tokens, every instance pair at / next to the threshold, no token shared across
    instances), all three operators, score column on."""
    name = "E1-sound"
    kind = "enum"
    exhaustive = True
    rule = "every E1 batch x operator: each returned row is an instance pair with its true score"

    def bounds(self, tier):
        return {"N": 18 if tier == "quick" else 40, "measures": ["JACCARD", "COSINE", "DICE"],
                "ops": [">=", ">", "="]}

    def shards(self, tier):
        return 16

    def cases(self, tier):
        for c in enumgen.e1_cases(self.bounds(tier)["N"], chunk=150):
            for op in (">=", ">", "="):
                d = dict(c)
                d["op"] = op
                yield d

    def check(self, case, ctx):
        triples = [tuple(t) for t in case["triples"]]
        L, R = enumgen.e1_tables(triples)
        m, t, op = case["measure"], case["threshold"], case["op"]
        df = ctx.lib(JOINS[m], L, R, "id", "id", "v", "v", mk_tok(enumgen.WS), t, op, True,
                     False, None, None, "l_", "r_", True, 1, False)
        if df is None:
            return
        seen = set()
        for i, j, sc in zip(df["l_id"].tolist(), df["r_id"].tolist(), df["_sim_score"].tolist()):
            if (i, j) in seen:
                ctx.violation("join=%s,kind=duplicate-pair" % m,
                              "%s_join on an E1 batch: pair (%r, %r) returned twice"
                              % (m.lower(), i, j))
            seen.add((i, j))
            if i != j:
                ctx.violation("join=%s,kind=non-qualifying-pair-returned" % m,
                              "%s_join threshold=%r op=%s on an E1 batch returned (%r, %r): rows "
                              "of different instances share no token (sizes %r and %r)"
                              % (m.lower(), t, op, i, j, triples[i], triples[j]))
                continue
            n, mm, o = triples[i]
            if oracle.classify(m, n, mm, o, t, op) == "no":
                ctx.violation("join=%s,kind=non-qualifying-pair-returned" % m,
                              "%s_join threshold=%r op=%s returned the pair with sizes/overlap "
                              "%r (similarity %r)" % (m.lower(), t, op, triples[i],
                                                      oracle.sim_values(m, n, mm, o)))
            if not oracle.score_ok(m, n, mm, o, sc):
                ctx.violation("join=%s,kind=wrong-score" % m,
                              "%s_join on an E1 batch: pair with sizes/overlap %r has _sim_score "
                              "%r, true similarity %r" % (m.lower(), triples[i], sc,
                                                          oracle.sim_values(m, n, mm, o)))
        ctx.nontrivial(len(seen) > 0)
        ctx.label("E1-sound:%s:%s" % (m, op))


COMPONENTS = [Random(), E1Sound()]
