"""C12 -- calls leave inputs and tokenizer untouched; no call affects a later one (stateful)."""
import collections
import time

import pandas as pd
from hypothesis import strategies as st
from hypothesis.stateful import RuleBasedStateMachine, initialize, invariant, rule

from .. import calls, canon, gen, oracle, simfns
from ..env import FILTER_NAMES, JOIN_NAMES, FreshLibrary, mk_tok, ssj
from ..runner import Component, Violation

PROPERTY = "C12"
RULE = ("Hypothesis RuleBasedStateMachine: a pool of 2+2 tables, a candidate set and five "
        "shared tokenizer objects (set and bag mode); rules = every join (edit distance also "
        "with the default tokenizer), every filter's filter_tables / filter_candset / "
        "filter_pair, apply_matcher, profile_table_for_join, non-inplace converters. After "
        "every step: pooled frames equal their pristine copies, every tokenizer's configuration "
        "(and the module default's) is unchanged, the step's result equals the same call on "
        "fresh objects. Non-trivial history = >=3 calls share one tokenizer and >=1 of them had "
        "to flip its mode. 'interference': every ordered pair (A, B) of configurations per entry "
        "point is run A-then-B and B is compared with B on a fresh library instance; distinct = "
        "digests of histories / cases")
ASSUMPTIONS = ["a history is replayed from its JSON record by the same step interpreter"]

TOK_POOL = [{"kind": "ws", "return_set": True}, {"kind": "ws", "return_set": False},
            {"kind": "qgram", "q": 2, "padding": True, "return_set": True},
            {"kind": "qgram", "q": 3, "padding": False, "return_set": False},
            {"kind": "delim", "delims": [","], "return_set": False}]
QGRAM_TOKS = [2, 3]
# long-lived filter objects shared by several steps: (type, pooled tokenizer, measure, threshold)
FILTER_POOL = [("position", 0, "COSINE", 0.5), ("prefix", 2, "JACCARD", 0.6),
               ("size", 0, "DICE", 0.7), ("suffix", 0, "JACCARD", 0.5),
               ("overlap", 1, "OVERLAP", 2), ("position", 3, "EDIT_DISTANCE", 1),
               ("prefix", 3, "EDIT_DISTANCE", 2), ("suffix", 0, "COSINE", 0.7),
               ("suffix", 3, "EDIT_DISTANCE", 1), ("size", 3, "EDIT_DISTANCE", 1)]
SET_MEASURES = ["JACCARD", "COSINE", "DICE", "OVERLAP_COEFFICIENT", "OVERLAP"]
WORDS = ["ab", "ba", "abb", "a", "b,a", "bab"]


@st.composite
def pool_tables(draw):
    tabs = []
    for side in range(4):
        n = draw(st.integers(1, 6))
        shape = draw(st.integers(0, 11))
        if shape == 0 and side in (1, 3):
            n = 0               # a table without rows (not one the candidate set refers to)
        vals = []
        for _ in range(n):
            k = draw(st.integers(0, 11))
            if shape == 1:      # a table whose join column holds no value at all
                vals.append(draw(st.sampled_from([None, float("nan")])))
            elif k == 0:
                vals.append(None)
            elif k == 1:
                vals.append("")
            else:
                vals.append(" ".join(draw(st.lists(st.sampled_from(WORDS), min_size=1,
                                                   max_size=4))))
        cols = [{"name": "id", "kind": "int", "values": list(range(10 * side, 10 * side + n))},
                {"name": "val", "kind": "obj", "values": vals},
                {"name": "num", "kind": "float",
                 "values": draw(st.lists(st.sampled_from([1.0, 2.0, None, 2.5]), min_size=n,
                                         max_size=n))},
                {"name": "cnt", "kind": "int",
                 "values": draw(st.lists(st.integers(0, 3), min_size=n, max_size=n))}]
        tabs.append({"columns": cols, "index": draw(gen.index_labels(n)), "key": "id",
                     "attr": "val"})
    return tabs


def default_tokenizer():
    return ssj.edit_distance_join.__defaults__[-1]


class World(object):
    """The pooled objects plus the step interpreter (used by the machine and by replay)."""

    def __init__(self, init, ctx):
        self.ctx = ctx
        self.init = init
        self.tabs = [canon.build_table(t) for t in init["tables"]]
        self.pristine = [canon.snapshot(t) for t in self.tabs]
        self.cand = self.build_cand()
        self.cand_snap = canon.snapshot(self.cand)
        self.toks = [mk_tok(c) for c in TOK_POOL]
        self.tok_snap = [canon.tok_state(t) for t in self.toks]
        self.default_snap = canon.tok_state(default_tokenizer())
        self.filters = [self.make_pool_filter(spec, self.toks[spec[1]], ssj)
                        for spec in FILTER_POOL]
        self.uses = collections.Counter()
        self.flips = collections.Counter()

    def build_cand(self, tabs=None):
        tabs = tabs or self.tabs
        l, r = tabs[0], tabs[2]
        pairs = [(a, b) for a in l["id"].tolist() for b in r["id"].tolist()]
        # non-default index labels (gaps, one repeated label): an in-place index reset of the
        # caller's candidate set must be visible
        idx = [7 + 3 * i for i in range(len(pairs))]
        if len(idx) > 2:
            idx[-1] = idx[0]
        return pd.DataFrame({"_id": list(range(len(pairs))), "l_id": [p[0] for p in pairs],
                             "r_id": [p[1] for p in pairs]}, index=pd.Index(idx))

    @staticmethod
    def make_pool_filter(spec, tok, api):
        ft, _, measure, thr = spec
        if ft == "overlap":
            return api.OverlapFilter(tok, thr)
        return getattr(api, FILTER_NAMES[ft])(tok, measure, thr)

    # ---------------------------------------------------------------- one step
    def execute(self, step, tabs, cand, tok, api=ssj, pooled=None):
        ctx = self.ctx
        JOINS = dict((m, getattr(api, n)) for m, n in JOIN_NAMES.items())
        FILTERS = dict((m, getattr(api, n)) for m, n in FILTER_NAMES.items())
        k = step["kind"]
        L, R = tabs[step.get("l", 0)], tabs[step.get("r", 2)]
        nj = step.get("n_jobs", 1)
        if k == "join":
            m = step["measure"]
            with calls.backend(nj):
                if m == "EDIT_DISTANCE":
                    kw = {}
                    if tok is not None:
                        kw["tokenizer"] = tok
                    return ctx.lib(JOINS[m], L, R, "id", "id", "val", "val", step["threshold"],
                                   step["op"], step["allow_missing"], None, ["cnt"], "l_", "r_",
                                   True, nj, False, **kw)
                if m == "OVERLAP":
                    return ctx.lib(JOINS[m], L, R, "id", "id", "val", "val", tok,
                                   step["threshold"], step["op"], step["allow_missing"], ["num"],
                                   None, "l_", "r_", True, nj, False)
                return ctx.lib(JOINS[m], L, R, "id", "id", "val", "val", tok, step["threshold"],
                               step["op"], step["allow_empty"], step["allow_missing"], ["num"],
                               None, "l_", "r_", True, nj, False)
        if k == "pooled_filter":
            spec = FILTER_POOL[step["f"]]
            f = pooled[step["f"]] if pooled is not None else \
                ctx.lib(self.make_pool_filter, spec, tok, api)
            if f is None:
                return None
            with calls.backend(nj):
                if step["call"] == "tables":
                    return ctx.lib(f.filter_tables, L, R, "id", "id", "val", "val", None,
                                   ["cnt"], n_jobs=nj, show_progress=False)
                if step["call"] == "candset":
                    return ctx.lib(f.filter_candset, cand, "l_id", "r_id", tabs[0], tabs[2],
                                   "id", "id", "val", "val", n_jobs=nj, show_progress=False)
            return [ctx.lib(f.filter_pair, a, b) for a in L["val"].tolist()
                    for b in R["val"].tolist()]
        if k in ("filter_tables", "filter_candset", "filter_pair"):
            ft = step["ftype"]
            if ft == "overlap":
                f = ctx.lib(FILTERS[ft], tok, step["threshold"], ">=", step["allow_missing"])
            else:
                f = ctx.lib(FILTERS[ft], tok, step["measure"], step["threshold"],
                            step["allow_empty"], step["allow_missing"])
            if f is None:
                return None
            with calls.backend(nj):
                if k == "filter_tables":
                    return ctx.lib(f.filter_tables, L, R, "id", "id", "val", "val", ["val"],
                                   ["cnt"], n_jobs=nj, show_progress=False)
                if k == "filter_candset":
                    return ctx.lib(f.filter_candset, cand, "l_id", "r_id", tabs[0], tabs[2],
                                   "id", "id", "val", "val", n_jobs=nj, show_progress=False)
            out = []
            for a in L["val"].tolist():
                for b in R["val"].tolist():
                    out.append(ctx.lib(f.filter_pair, a, b))
            return out
        if k == "matcher":
            with calls.backend(nj):
                return ctx.lib(api.apply_matcher, cand, "l_id", "r_id", tabs[0], tabs[2], "id",
                               "id", "val", "val", tok, simfns.get(step["fn"]),
                               step["threshold"], step["op"], step["allow_missing"], ["num"],
                               ["val"], "l_", "r_", True, nj, False)
        if k == "profile":
            return ctx.lib(api.profile_table_for_join, L)
        if k == "convert":
            if step["fn"] == "series":
                return ctx.lib(api.series_to_str, L[step["col"]], False)
            return ctx.lib(api.dataframe_column_to_str, L, step["col"], False,
                           step["return_col"])
        raise ValueError(k)

    @staticmethod
    def canon_result(res):
        if isinstance(res, pd.DataFrame):
            return ("df", [str(c) for c in res.columns],
                    sorted(collections.Counter(canon.rows_of(res)).items(), key=repr))
        if isinstance(res, pd.Series):
            return ("ser", [canon.cv(v) for v in res.tolist()])
        if isinstance(res, list):
            return ("list", [None if r is None else bool(r) for r in res])
        return ("other", repr(res))

    def step(self, step):
        ctx = self.ctx
        ti = step.get("tok")
        tok = None if ti is None else self.toks[ti]
        res = self.execute(step, self.tabs, self.cand, tok, pooled=self.filters)
        desc = "step %s" % canon.dumps(step)
        # (1) inputs untouched
        for i, t in enumerate(self.tabs):
            if canon.snapshot(t) != self.pristine[i]:
                ctx.violation("kind=input-table-modified,call=%s" % step["kind"],
                              "%s modified pooled table %d" % (desc, i))
        if canon.snapshot(self.cand) != self.cand_snap:
            ctx.violation("kind=candset-modified,call=%s" % step["kind"],
                          "%s modified the pooled candidate set" % desc)
        # (2) tokenizers untouched
        for i, t in enumerate(self.toks):
            if canon.tok_state(t) != self.tok_snap[i]:
                ctx.violation("kind=tokenizer-changed,call=%s" % self.call_name(step),
                              "%s left pooled tokenizer %d (%r) as %s, was %s"
                              % (desc, i, TOK_POOL[i], canon.tok_state(t), self.tok_snap[i]))
        if canon.tok_state(default_tokenizer()) != self.default_snap:
            ctx.violation("kind=default-tokenizer-changed,call=%s" % self.call_name(step),
                          "%s changed edit_distance_join's default tokenizer to %s"
                          % (desc, canon.tok_state(default_tokenizer())))
        # (3) same result as in isolation
        if res is not None:
            ftabs = [canon.build_table(t) for t in self.init["tables"]]
            fcand = self.build_cand(ftabs)
            if ti is not None:
                ftok = mk_tok(TOK_POOL[ti])
            elif step["kind"] == "join" and step["measure"] == "EDIT_DISTANCE":
                ftok = mk_tok({"kind": "qgram", "q": 2, "padding": True, "return_set": False})
            else:
                ftok = None
            with FreshLibrary().active() as fresh:
                iso = self.execute(step, ftabs, fcand, ftok, api=fresh)
            if iso is not None and self.canon_result(res) != self.canon_result(iso):
                ctx.violation("kind=result-depends-on-history,call=%s" % self.call_name(step),
                              "%s: result after this history %r differs from the result on "
                              "fresh objects %r" % (desc, str(self.canon_result(res))[:300],
                                                    str(self.canon_result(iso))[:300]))
        # bookkeeping for non-triviality
        if ti is not None:
            self.uses[ti] += 1
            if step["kind"] == "join":
                want_set = step["measure"] != "EDIT_DISTANCE"
                if TOK_POOL[ti]["return_set"] != want_set:
                    self.flips[ti] += 1

    @staticmethod
    def call_name(step):
        if step["kind"] == "join":
            return step["measure"].lower() + "_join"
        if step["kind"] == "pooled_filter":
            return "shared-%s-object.filter_%s" % (FILTER_POOL[step["f"]][0], step["call"])
        if step["kind"].startswith("filter"):
            return step["ftype"] + "." + step["kind"]
        return step["kind"]

    def nontrivial(self):
        return any(self.uses[i] >= 3 and self.flips[i] >= 1 for i in self.uses)


def make_machine(ctx, tally, state, deadline, tier):

    class Machine(RuleBasedStateMachine):
        def __init__(self):
            super(Machine, self).__init__()
            self.world = None
            self.history = None
            self.skip = time.time() > deadline and state["last_fail"] is None
            if self.skip:
                tally.budget_exhausted = True
                tally.skipped += 1

        @initialize(tabs=pool_tables())
        def init(self, tabs):
            ctx.reset()
            self.history = {"init": {"tables": tabs}, "steps": []}
            if not self.skip:
                self.do(lambda: setattr(self, "world", World(self.history["init"], ctx)))

        def do(self, fn):
            try:
                fn()
            except Violation as v:
                state["last_fail"] = (self.history, v)
                raise

        def run(self, step):
            if self.skip or self.world is None:
                return
            self.history["steps"].append(step)
            self.do(lambda: self.world.step(step))

        @rule(measure=st.sampled_from(SET_MEASURES), l=st.integers(0, 1), r=st.integers(2, 3),
              tok=st.sampled_from([1, 1, 1, 3, 3, 0, 2, 4]),
              thr=st.sampled_from([0.3, 0.5, 0.8, 1.0]),
              op=st.sampled_from([">=", ">", "="]), ae=st.booleans(), am=st.booleans(),
              nj=st.sampled_from([1, 1, 2, 3]))
        def set_join(self, measure, l, r, tok, thr, op, ae, am, nj):
            t = (1 if thr < 0.6 else 2) if measure == "OVERLAP" else thr
            self.run({"kind": "join", "measure": measure, "l": l, "r": r, "tok": tok,
                      "threshold": t, "op": op, "allow_empty": ae, "allow_missing": am,
                      "n_jobs": nj})

        @rule(l=st.integers(0, 1), r=st.integers(2, 3),
              tok=st.sampled_from([None, 2, 2, 3]), thr=st.integers(0, 3),
              op=st.sampled_from(["<=", "<", "="]), am=st.booleans(),
              nj=st.sampled_from([1, 1, 2]))
        def ed_join(self, l, r, tok, thr, op, am, nj):
            self.run({"kind": "join", "measure": "EDIT_DISTANCE", "l": l, "r": r, "tok": tok,
                      "threshold": thr, "op": op, "allow_missing": am, "n_jobs": nj})

        @rule(kind=st.sampled_from(["filter_tables", "filter_candset", "filter_pair"]),
              ftype=st.sampled_from(["size", "prefix", "position", "suffix", "overlap"]),
              measure=st.sampled_from(["JACCARD", "COSINE", "DICE", "OVERLAP", "EDIT_DISTANCE"]),
              l=st.integers(0, 1), r=st.integers(2, 3), tok=st.integers(0, len(TOK_POOL) - 1),
              thr=st.sampled_from([0.3, 0.5, 0.8, 1.0]), ae=st.booleans(), am=st.booleans(),
              nj=st.sampled_from([1, 1, 2]))
        def filt(self, kind, ftype, measure, l, r, tok, thr, ae, am, nj):
            if ftype == "overlap":
                measure = "OVERLAP"
            if measure == "EDIT_DISTANCE":
                tok = QGRAM_TOKS[tok % 2]
                t = int(thr * 3)
            elif measure == "OVERLAP":
                t = 1 if thr < 0.6 else 2
            else:
                t = thr
            self.run({"kind": kind, "ftype": ftype, "measure": measure, "l": l, "r": r,
                      "tok": tok, "threshold": t, "allow_empty": ae, "allow_missing": am,
                      "n_jobs": nj})

        @rule(f=st.integers(0, len(FILTER_POOL) - 1),
              call=st.sampled_from(["tables", "tables", "candset", "pair"]),
              l=st.integers(0, 1), r=st.integers(2, 3), nj=st.sampled_from([1, 1, 2]))
        def pooled_filter(self, f, call, l, r, nj):
            self.run({"kind": "pooled_filter", "f": f, "call": call, "l": l, "r": r,
                      "tok": FILTER_POOL[f][1], "n_jobs": nj})

        @rule(fn=st.sampled_from(["jaccard", "dice", "common_count", "lev", "lambda"]),
              tok=st.integers(0, len(TOK_POOL) - 1), thr=st.sampled_from([0, 0.5, 1, 2]),
              op=st.sampled_from([">=", ">", "<=", "<", "=", "!="]), am=st.booleans(),
              nj=st.sampled_from([1, 1, 2]))
        def matcher(self, fn, tok, thr, op, am, nj):
            self.run({"kind": "matcher", "fn": fn, "tok": None if fn == "lev" else tok,
                      "threshold": thr, "op": op, "allow_missing": am, "n_jobs": nj})

        @rule(l=st.integers(0, 3))
        def profile(self, l):
            self.run({"kind": "profile", "l": l})

        @rule(l=st.integers(0, 3), fn=st.sampled_from(["series", "frame"]),
              col=st.sampled_from(["num", "cnt", "val"]), rc=st.booleans())
        def convert(self, l, fn, col, rc):
            self.run({"kind": "convert", "l": l, "fn": fn, "col": col, "return_col": rc})

        def teardown(self):
            if self.skip or self.world is None or self.history is None:
                return
            if state["last_fail"] is not None and state["last_fail"][0] is self.history:
                return
            ctx.nontrivial(self.world.nontrivial())
            ctx.label("steps=%d" % min(len(self.history["steps"]), 30))
            for s in self.history["steps"]:
                ctx.label("call=" + World.call_name(s))
            ctx.label("history-with-flip", any(self.world.flips.values()))
            tally.record(self.history, ctx)
            ctx.reset()

    return Machine


class Stateful(Component):
    name = "machine"
    kind = "stateful"
    rule = ">=3 calls share one tokenizer object and >=1 of them had to flip its mode"

    def examples(self, tier):
        return 50 if tier == "quick" else 300

    def steps(self, tier):
        return 14 if tier == "quick" else 30

    def budget_s(self, tier):
        return 200 if tier == "quick" else 2400

    def machine(self, tier, ctx, tally, state, deadline):
        return make_machine(ctx, tally, state, deadline, tier)

    def run_history(self, history, ctx):
        w = World(history["init"], ctx)
        for s in history["steps"]:
            w.step(s)

    check = run_history


def _interference_configs():
    ed = [("EDIT_DISTANCE", q, pad, t) for q in (1, 2, 3) for pad in (True, False)
          for t in (1, 2, 3)]
    sets = [(m, None, None, t) for m in ("JACCARD", "COSINE", "DICE") for t in (0.3, 0.5, 0.8)]
    return ed, sets


class Interference(Component):
    """Systematic pairwise interference: call A then call B (same entry point, different
    tokenizer configuration / threshold / measure) in this process and compare B's result with
    B on a freshly imported library instance.  Data: all strings over {a,b} up to length 5
    (edit distance) and the dense all-subsets tables (set measures), so that every size and
    prefix length occurs.  Targets caches keyed by an incomplete set of parameters."""
    name = "interference"
    kind = "enum"
    exhaustive = True
    rule = "every ordered pair (A, B) of configurations per entry-point family"

    def bounds(self, tier):
        ed, sets = _interference_configs()
        return {"edit_distance_configs": len(ed), "set_configs": len(sets),
                "entries": ["join", "PrefixFilter", "PositionFilter"]}

    def shards(self, tier):
        return 16

    def budget_s(self, tier):
        return 240 if tier == "quick" else 2400

    def cases(self, tier):
        ed, sets = _interference_configs()
        for fam, cfgs in (("ed", ed), ("set", sets)):
            for entry in ("join", "prefix", "position"):
                for a in cfgs:
                    yield {"family": fam, "entry": entry, "first": list(a),
                           "then": [list(b) for b in cfgs if b != a]}

    @staticmethod
    def data(fam):
        from . import c02, c03
        if fam == "ed":
            strs, T = c03.e3_table("ab", 5)
            return T, T, "id", "v"
        subsets = c02.dense_rows(8, 2)
        names = [chr(ord("a") + i) for i in range(8)]
        vals = [" ".join([names[i] for i in c] + ["zhub"]) for c in subsets]
        T = pd.DataFrame({"id": list(range(len(vals))), "v": pd.Series(vals, dtype=object)})
        return T, T, "id", "v"

    @staticmethod
    def call(ctx, api, entry, cfg, L, R):
        m, q, pad, t = cfg
        if m == "EDIT_DISTANCE":
            tok = mk_tok({"kind": "qgram", "q": q, "padding": pad, "return_set": False})
        else:
            tok = mk_tok({"kind": "ws", "return_set": True})
        if entry == "join":
            if m == "EDIT_DISTANCE":
                return ctx.lib(api.edit_distance_join, L, R, "id", "id", "v", "v", t, "<=", False,
                               None, None, "l_", "r_", True, 1, False, tok)
            fn = getattr(api, JOIN_NAMES[m])
            return ctx.lib(fn, L, R, "id", "id", "v", "v", tok, t, ">=", True, False, None, None,
                           "l_", "r_", True, 1, False)
        cls = api.PrefixFilter if entry == "prefix" else api.PositionFilter
        f = ctx.lib(cls, tok, m, t)
        if f is None:
            return None
        return ctx.lib(f.filter_tables, L, R, "id", "id", "v", "v", show_progress=False)

    def check(self, case, ctx):
        L, R, _, _ = self.data(case["family"])
        first = tuple(case["first"])
        for b in case["then"]:
            b = tuple(b)
            self.call(ctx, ssj, case["entry"], first, L, R)
            got = self.call(ctx, ssj, case["entry"], b, L, R)
            with FreshLibrary().active() as fresh:
                want = self.call(ctx, fresh, case["entry"], b, L, R)
            if got is None or want is None:
                continue
            g = collections.Counter(canon.rows_of(got.iloc[:, 1:]))
            w = collections.Counter(canon.rows_of(want.iloc[:, 1:]))
            if g != w:
                ctx.violation("kind=result-depends-on-history,call=%s" % case["entry"],
                              "%s with configuration %r gives a different result after a call "
                              "with configuration %r than on a fresh library: only after history "
                              "%r, only fresh %r" % (case["entry"], b, first,
                                                     list((g - w).items())[:3],
                                                     list((w - g).items())[:3]))
        ctx.nontrivial(True)
        ctx.label("interference:%s:%s" % (case["family"], case["entry"]))


def _reuse_configs():
    out = []
    for ft in ("size", "prefix", "position", "suffix"):
        for q in (1, 2, 3):
            for pad in (True, False):
                for t in (1, 2, 3):
                    out.append([ft, "EDIT_DISTANCE", q, pad, t, "<="])
        for m in ("JACCARD", "COSINE", "DICE"):
            for t in (0.3, 0.5, 0.7, 0.8, 0.9):
                out.append([ft, m, None, None, t, ">="])
        for t in (1, 2, 3):
            out.append([ft, "OVERLAP", None, None, t, ">="])
    for t in (1, 2, 3, 4):
        for op in (">=", ">", "="):
            out.append(["overlap", "OVERLAP", None, None, t, op])
    return out


class ObjectReuse(Component):
    """One long-lived filter object answers filter_pair for every value pair of a table in two
    different orders, then filter_candset and filter_tables; every answer is compared with the
    answer of a filter object created for that single call.  Data: token sets of 1..12 tokens
    in several windows of a 14-token universe (every size split occurs, including the skewed
    ones) and all strings over {a,b} up to length 4 plus longer periodic strings.  Targets
    per-object caches keyed by an incomplete set of the quantities a verdict depends on."""
    name = "object-reuse"
    kind = "enum"
    exhaustive = True
    rule = "every (filter, measure, tokenizer configuration, threshold) cell; >=1 pair kept and >=1 dropped"

    def bounds(self, tier):
        return {"cells": len(_reuse_configs()), "set_values": len(self.values("set")),
                "ed_values": len(self.values("ed"))}

    def shards(self, tier):
        return 16

    def budget_s(self, tier):
        return 240 if tier == "quick" else 1200

    def cases(self, tier):
        for c in _reuse_configs():
            yield {"cfg": c}

    @staticmethod
    def values(fam):
        if fam == "ed":
            from . import c03
            strs, _ = c03.e3_table("ab", 4)
            return list(strs) + ["aaabbbaaa", "aaababbaaa", "abababab", "bbbbbbbb", "bbbbbbbbbb",
                                 "abaabbbb", "ababababab", "aabbaabbaabb", "similarity join",
                                 "similarity joins", "university of wisconsin"]
        names = ["t%02d" % i for i in range(14)]
        vals = [""]
        for size in range(1, 13):
            for off in (0, 3, 7):
                vals.append(" ".join(names[(off + i) % 14] for i in range(size)))
        return vals

    @staticmethod
    def make(ctx, cfg):
        ft, m, q, pad, t, op = cfg
        if m == "EDIT_DISTANCE":
            tok = mk_tok({"kind": "qgram", "q": q, "padding": pad, "return_set": False})
        else:
            tok = mk_tok({"kind": "ws", "return_set": True})
        return calls.make_filter(ctx, {"type": ft, "measure": m, "threshold": t, "op": op}, tok)

    def check(self, case, ctx):
        cfg = case["cfg"]
        ft, m = cfg[0], cfg[1]
        vals = self.values("ed" if m == "EDIT_DISTANCE" else "set")
        n = len(vals)
        pairs = [(i, j) for i in range(n) for j in range(n)]
        want = {}
        for i, j in pairs:
            f = self.make(ctx, cfg)
            want[(i, j)] = None if f is None else ctx.lib(f.filter_pair, vals[i], vals[j])
        shared = self.make(ctx, cfg)
        if shared is None:
            return
        name = "shared-%s-object" % ft
        desc = "%s(%s, %r%s) q=%r padding=%r" % (FILTER_NAMES[ft], m, cfg[4],
                                                  ", " + cfg[5] if ft == "overlap" else "",
                                                  cfg[2], cfg[3])
        N = len(pairs)
        orders = [pairs, [pairs[(k * 7919 + 13) % N] for k in range(N)] if N % 7919 else pairs[::-1],
                  pairs[::-1]]
        for o, order in enumerate(orders):
            for i, j in order:
                got = ctx.lib(shared.filter_pair, vals[i], vals[j])
                if got is not None and want[(i, j)] is not None and \
                        bool(got) != bool(want[(i, j)]):
                    ctx.violation("kind=result-depends-on-history,call=%s.filter_pair" % name,
                                  "%s: one filter object asked about all %d value pairs (order "
                                  "%d) answers filter_pair(%r, %r) = %r; a filter object created "
                                  "for this call alone answers %r"
                                  % (desc, N, o, vals[i], vals[j], got, want[(i, j)]))
        T = pd.DataFrame({"id": list(range(n)), "v": pd.Series(vals, dtype=object)})
        C = pd.DataFrame({"_id": list(range(N)), "l_id": [p[0] for p in orders[1]],
                          "r_id": [p[1] for p in orders[1]]})
        keep = set(k for k, v in want.items() if v is not None and not v)
        for nj in (1, 3):
            with calls.backend(nj):
                out = ctx.lib(shared.filter_candset, C, "l_id", "r_id", T, T, "id", "id", "v", "v",
                              n_jobs=nj, show_progress=False)
            if out is not None:
                got = set(zip(out["l_id"].tolist(), out["r_id"].tolist()))
                if got != keep:
                    d = sorted(got ^ keep)[:3]
                    ctx.violation("kind=result-depends-on-history,call=%s.filter_candset" % name,
                                  "%s: filter_candset (n_jobs=%d) of a filter object used before "
                                  "disagrees with single-use filter objects on value pairs %r"
                                  % (desc, nj, [(vals[a], vals[b]) for a, b in d]))
        out = ctx.lib(shared.filter_tables, T, T, "id", "id", "v", "v", show_progress=False)
        fresh = self.make(ctx, cfg)
        ref = None if fresh is None else ctx.lib(fresh.filter_tables, T, T, "id", "id", "v", "v",
                                                 show_progress=False)
        if out is not None and ref is not None:
            g = collections.Counter(canon.rows_of(out.iloc[:, 1:]))
            w = collections.Counter(canon.rows_of(ref.iloc[:, 1:]))
            if g != w:
                ctx.violation("kind=result-depends-on-history,call=%s.filter_tables" % name,
                              "%s: filter_tables of a filter object used before differs from a "
                              "new object's: only used %r, only new %r"
                              % (desc, list((g - w).items())[:3], list((w - g).items())[:3]))
        ctx.nontrivial(bool(keep) and len(keep) < N)
        ctx.label("object-reuse:%s:%s" % (ft, m))


SHAPES = {
    "normal": ["ab ba", "ab ba abb", "a", "", "bab ab", None, "ab ba"],
    "all-missing": [None, float("nan"), None],
    "no-rows": [],
    "one-row": ["ab ba"],
    "all-empty": ["", " ", ""],
}


class Shapes(Component):
    """Tokenizer restore and input preservation on degenerate tables: every join and every
    filter's filter_tables x pooled tokenizer (set and bag mode) x every ordered pair of table
    shapes (normal, all values missing, no rows, one row, all values empty) x allow_missing x
    n_jobs.  After each call the tokenizer must be configured as before, the tables unchanged,
    and a following call with the same tokenizer must equal the call on fresh objects."""
    name = "shapes"
    kind = "enum"
    exhaustive = True
    rule = "every (entry point, tokenizer, left shape, right shape) cell; all are non-trivial"

    def bounds(self, tier):
        return {"shapes": sorted(SHAPES), "tokenizers": len(TOK_POOL),
                "entries": len(SET_MEASURES) + 1 + 5}

    def shards(self, tier):
        return 16

    def budget_s(self, tier):
        return 240 if tier == "quick" else 1200

    def cases(self, tier):
        ents = [("join", m) for m in SET_MEASURES + ["EDIT_DISTANCE"]] + \
            [("filter", f) for f in ("size", "prefix", "position", "suffix", "overlap")]
        for kind, what in ents:
            for ti, tc in enumerate(TOK_POOL):
                if what == "EDIT_DISTANCE" and tc["kind"] != "qgram":
                    continue
                for ls in sorted(SHAPES):
                    for rs in sorted(SHAPES):
                        yield {"kind": kind, "what": what, "tok": ti, "l": ls, "r": rs}
        # non-inplace converters and the profiler on every table shape and column dtype
        for ls in sorted(SHAPES):
            for what in ("series", "frame", "frame-return-col", "profile"):
                for col in ("val", "cnt", "num"):
                    yield {"kind": "unary", "what": what, "l": ls, "col": col}

    @staticmethod
    def table(shape, base):
        vals = SHAPES[shape]
        num = [float("nan") if (v is None or v != v or not v.strip()) else float(i)
               for i, v in enumerate(vals)]
        return pd.DataFrame({"id": list(range(base, base + len(vals))),
                             "val": pd.Series(vals, dtype=object),
                             "cnt": list(range(len(vals))),
                             "num": pd.Series(num, dtype="float64")})

    @staticmethod
    def call(ctx, api, case, tok, L, R, am, nj):
        if case["kind"] == "join":
            m = case["what"]
            fn = getattr(api, JOIN_NAMES[m])
            with calls.backend(nj):
                if m == "EDIT_DISTANCE":
                    return ctx.lib(fn, L, R, "id", "id", "val", "val", 1, "<=", am, None, ["cnt"],
                                   "l_", "r_", True, nj, False, tok)
                if m == "OVERLAP":
                    return ctx.lib(fn, L, R, "id", "id", "val", "val", tok, 1, ">=", am, None,
                                   ["cnt"], "l_", "r_", True, nj, False)
                return ctx.lib(fn, L, R, "id", "id", "val", "val", tok, 0.5, ">=", True, am, None,
                               ["cnt"], "l_", "r_", True, nj, False)
        ft = case["what"]
        if ft == "overlap":
            f = ctx.lib(api.OverlapFilter, tok, 1, ">=", am)
        else:
            f = ctx.lib(getattr(api, FILTER_NAMES[ft]), tok, "JACCARD", 0.5, True, am)
        if f is None:
            return None
        with calls.backend(nj):
            return ctx.lib(f.filter_tables, L, R, "id", "id", "val", "val", None, ["cnt"],
                           n_jobs=nj, show_progress=False)

    def check_unary(self, case, ctx):
        T = self.table(case["l"], 0)
        snap = canon.snapshot(T)
        what, col = case["what"], case["col"]
        if what == "series":
            name = "series_to_str"
            ctx.lib(ssj.series_to_str, T[col], False)
        elif what == "profile":
            name = "profile_table_for_join"
            ctx.lib(ssj.profile_table_for_join, T, [col])
        else:
            name = "dataframe_column_to_str"
            ctx.lib(ssj.dataframe_column_to_str, T, col, False, what == "frame-return-col")
        if canon.snapshot(T) != snap:
            ctx.violation("kind=input-table-modified,call=%s" % name,
                          "%s (%s, not in place) on column %r of a table of shape %r changed "
                          "the table it was given: %r -> %r"
                          % (name, what, col, case["l"], snap[2], canon.snapshot(T)[2]))
        ctx.nontrivial(True)
        ctx.label("shapes:%s" % name)

    def check(self, case, ctx):
        if case["kind"] == "unary":
            return self.check_unary(case, ctx)
        name = ("%s_join" % case["what"].lower()) if case["kind"] == "join" else \
            "%s.filter_tables" % case["what"]
        for am in (False, True):
            for nj in (1, 2):
                tok = mk_tok(TOK_POOL[case["tok"]])
                before = canon.tok_state(tok)
                L, R = self.table(case["l"], 0), self.table(case["r"], 100)
                sl, sr = canon.snapshot(L), canon.snapshot(R)
                desc = "%s(tokenizer %r, left table %s, right table %s, allow_missing=%r, " \
                    "n_jobs=%d)" % (name, TOK_POOL[case["tok"]], case["l"], case["r"], am, nj)
                got = self.call(ctx, ssj, case, tok, L, R, am, nj)
                if canon.tok_state(tok) != before:
                    ctx.violation("kind=tokenizer-changed,call=%s" % name,
                                  "%s left the tokenizer as %s, was %s"
                                  % (desc, canon.tok_state(tok), before))
                if canon.snapshot(L) != sl or canon.snapshot(R) != sr:
                    ctx.violation("kind=input-table-modified,call=%s" % name,
                                  "%s modified an input table" % desc)
                # a following call with the same tokenizer on ordinary tables
                N1, N2 = self.table("normal", 0), self.table("normal", 100)
                after = self.call(ctx, ssj, case, tok, N1, N2, am, 1)
                with FreshLibrary().active() as fresh:
                    ftok = mk_tok(TOK_POOL[case["tok"]])
                    want = self.call(ctx, fresh, case, ftok, self.table("normal", 0),
                                     self.table("normal", 100), am, 1)
                if after is not None and want is not None and \
                        World.canon_result(after) != World.canon_result(want):
                    ctx.violation("kind=result-depends-on-history,call=%s" % name,
                                  "after %s the same entry point on ordinary tables returns %r; "
                                  "on fresh objects %r" % (desc, str(World.canon_result(after))[:200],
                                                           str(World.canon_result(want))[:200]))
                if got is not None and not isinstance(got, pd.DataFrame):
                    ctx.violation("kind=not-a-dataframe,call=%s" % name, "%s returned %r"
                                  % (desc, type(got)))
        ctx.nontrivial(True)
        ctx.label("shapes:%s" % name)
        ctx.label("bag-tokenizer", not TOK_POOL[case["tok"]]["return_set"])


COMPONENTS = [Stateful(), Interference(), ObjectReuse(), Shapes()]
