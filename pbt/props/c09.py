"""C09 -- empty token sets are admitted iff allow_empty, independent of threshold."""
from hypothesis import strategies as st

from .. import calls, canon, gen, oracle
from ..env import mk_tok
from ..runner import Component
from . import c04

PROPERTY = "C09"
RULE = ("G-TABLE biased to empty / delimiter-only / shorter-than-q strings on both sides x the "
        "five set joins (component 'joins') and Size/Prefix/Position/Suffix filters under "
        "JACCARD/COSINE/DICE/OVERLAP + OverlapFilter via filter_pair, filter_tables, "
        "filter_candset (component 'filters') x thresholds x operators x allow_empty x n_jobs; "
        "non-trivial = a both-empty pair and a one-empty pair in the cross product; distinct = "
        "case digests")
ASSUMPTIONS = ["py_stringmatching tokenizers decide which strings have no tokens"]


class Joins(Component):
    name = "joins"
    kind = "hyp"
    rule = ">=1 both-empty and >=1 one-empty pair"

    def examples(self, tier):
        return 300 if tier == "quick" else 1500

    def strategy(self, tier):
        return gen.set_join_case(tier, p_empty=5)

    def check(self, case, ctx):
        L, R = canon.build_pair(case)
        m = case["measure"]
        df = calls.run_join(ctx, case, L, R, mk_tok(case["tok"]))
        if df is None:
            return
        P = calls.Pairs(case)
        got, order = calls.key_pairs(df, case)
        scores = df["_sim_score"].tolist() if "_sim_score" in df.columns else None
        want_empty = (m != "OVERLAP") and case.get("allow_empty", True)
        who = "%s_join threshold=%r op=%s allow_empty=%s n_jobs=%r" % (
            m.lower(), case["threshold"], case["op"], case.get("allow_empty"), case["n_jobs"])
        for k in P.of("bothempty"):
            if want_empty and got[k] != 1:
                ctx.violation("join=%s,kind=empty-pair-not-admitted" % m,
                              "%s: both-empty pair %r occurs %d times, expected once"
                              % (who, k, got[k]))
            if not want_empty and got[k] != 0:
                ctx.violation("join=%s,kind=empty-pair-admitted" % m,
                              "%s: both-empty pair %r is in the output" % (who, k))
        for k in P.of("oneempty"):
            if got[k] != 0:
                ctx.violation("join=%s,kind=one-empty-pair-returned" % m,
                              "%s: pair %r with exactly one empty side (sizes %r) is in the "
                              "output" % (who, k, P.stats[k]))
        if scores is not None and want_empty:
            for k, s in zip(order, scores):
                if P.cat.get(k) == "bothempty" and canon.cv(s) != 1:
                    ctx.violation("join=%s,kind=empty-pair-score" % m,
                                  "%s: both-empty pair %r has score %r, expected 1.0"
                                  % (who, k, s))
        ctx.nontrivial(P.count("bothempty") > 0 and P.count("oneempty") > 0)
        ctx.label("measure=" + m)
        ctx.label("allow_empty", bool(case.get("allow_empty")))
        ctx.label("op=" + case["op"])
        ctx.label("n_jobs>1", case["n_jobs"] != 1)
        ctx.label("has-bothempty", P.count("bothempty") > 0)


class Filters(Component):
    name = "filters"
    kind = "hyp"
    rule = ">=1 both-empty and >=1 one-empty pair"

    def examples(self, tier):
        return 300 if tier == "quick" else 1500

    def strategy(self, tier):
        return c04.set_filter_case(tier, p_empty=5)

    def check(self, case, ctx):
        L, R = canon.build_pair(case)
        ft, m = case["ftype"], case["measure"]
        f = calls.make_filter(ctx, c04.fcfg_of(case), mk_tok(case["tok"]))
        if f is None:
            return
        P = calls.Pairs(case, m, case["threshold"], ">=")
        want = (m != "OVERLAP") and case.get("allow_empty", True)
        who = "%s(%s, %r, allow_empty=%s)" % (c04.CLS[ft], m, case["threshold"],
                                              case.get("allow_empty"))
        site = "filter=%s" % c04.CLS[ft]
        lv = dict(zip(P.lk, calls.lvals(case)))
        rv = dict(zip(P.rk, calls.rvals(case)))
        be = P.of("bothempty")
        for k in be:
            r = ctx.lib(f.filter_pair, lv[k[0]], rv[k[1]])
            if r is not None and bool(r) != (not want):
                ctx.violation(site + ",kind=filter_pair-empty",
                              "%s.filter_pair(%r, %r) (both without tokens) returned %r"
                              % (who, lv[k[0]], rv[k[1]], r))
        df = calls.run_filter_tables(ctx, f, case, L, R)
        if df is not None:
            got, _ = calls.key_pairs(df, case)
            for k in be:
                if want and got[k] != 1:
                    ctx.violation(site + ",kind=filter_tables-empty-not-listed",
                                  "%s.filter_tables n_jobs=%r lists both-empty pair %r %d times,"
                                  " expected once" % (who, case["n_jobs"], k, got[k]))
                if not want and got[k] != 0:
                    ctx.violation(site + ",kind=filter_tables-empty-listed",
                                  "%s.filter_tables lists both-empty pair %r" % (who, k))
        cs = case["candset"]
        C = gen.build_candset(cs)
        out = calls.run_filter_candset(ctx, f, case, C, cs["names"], L, R, case["cand_n_jobs"])
        hit = 0
        if out is not None:
            kept = set(zip(canon.col_values(out, cs["names"][0]),
                           canon.col_values(out, cs["names"][1])))
            for a, b in zip(cs["l"], cs["r"]):
                k = (canon.cv(a), canon.cv(b))
                if P.cat.get(k) == "bothempty":
                    hit += 1
                    if (k in kept) != want:
                        ctx.violation(site + ",kind=filter_candset-empty",
                                      "%s.filter_candset %s both-empty pair %r"
                                      % (who, "keeps" if k in kept else "drops", k))
        ctx.nontrivial(len(be) > 0 and P.count("oneempty") > 0)
        ctx.label(site)
        ctx.label("measure=" + m)
        ctx.label("allow_empty", bool(case.get("allow_empty")))
        ctx.label("candset-has-bothempty", hit > 0)
        ctx.label("n_jobs>1", case["n_jobs"] != 1)


GRID_ENTRIES = ["jaccard_join", "cosine_join", "overlap_coefficient_join", "SizeFilter", "PrefixFilter",
                "PositionFilter", "SuffixFilter"]


class Grid(Component):
    """Every job must see the left table's empty rows and no right row may fall between
    chunks: dense (right rows, n_jobs) grid where every third right row has no tokens."""
    name = "grid"
    kind = "enum"
    exhaustive = True
    rule = "every (entry point, right rows <= R, n_jobs <= rows+2) cell"

    def bounds(self, tier):
        return {"rows": 32 if tier == "quick" else 64, "entries": GRID_ENTRIES}

    def shards(self, tier):
        return 16

    def cases(self, tier):
        for e in GRID_ENTRIES:
            for r in range(1, self.bounds(tier)["rows"] + 1):
                yield {"entry": e, "rows": r}

    def check(self, case, ctx):
        import pandas as pd
        from ..env import ssj
        e, r = case["entry"], case["rows"]
        lv = ["", "a b", " ", "c"]
        rv = ["" if i % 3 == 0 else ("  " if i % 7 == 5 else "a b x%d" % i) for i in range(r)]
        L = pd.DataFrame({"id": [0, 1, 2, 3], "v": pd.Series(lv, dtype=object)})
        R = pd.DataFrame({"id": list(range(100, 100 + r)), "v": pd.Series(rv, dtype=object)})
        l_empty = [0, 2]
        r_empty = [100 + i for i, v in enumerate(rv) if not v.strip()]
        want = set((a, b) for a in l_empty for b in r_empty)
        for ae in (True, False):
            for k in [1] + list(range(2, r + 3)):
                tok = mk_tok({"kind": "ws", "return_set": True})
                with calls.backend(k):
                    if e.endswith("_join"):
                        df = ctx.lib(getattr(ssj, e), L, R, "id", "id", "v", "v", tok, 0.9, ">=",
                                     ae, False, None, None, "l_", "r_", True, k, False)
                    else:
                        f = getattr(ssj, e)(tok, "JACCARD", 0.9, ae)
                        df = ctx.lib(f.filter_tables, L, R, "id", "id", "v", "v", n_jobs=k,
                                     show_progress=False)
                if df is None:
                    continue
                import collections
                got = collections.Counter(zip(df["l_id"].tolist(), df["r_id"].tolist()))
                for p_ in want:
                    if ae and got[p_] != 1:
                        ctx.violation("entry=%s,kind=empty-pair-not-admitted" % e,
                                      "%s allow_empty=True, %d right rows, n_jobs=%d: both-empty "
                                      "pair %r occurs %d times, expected once"
                                      % (e, r, k, p_, got[p_]))
                    if not ae and got[p_] != 0:
                        ctx.violation("entry=%s,kind=empty-pair-admitted" % e,
                                      "%s allow_empty=False, %d right rows, n_jobs=%d: both-empty "
                                      "pair %r is in the output" % (e, r, k, p_))
                for (a, b), c in got.items():
                    one_empty = (a in l_empty) != (b in r_empty)
                    if one_empty and e.endswith("_join"):
                        ctx.violation("entry=%s,kind=one-empty-pair-returned" % e,
                                      "%s, %d right rows, n_jobs=%d returned (%r, %r) with exactly "
                                      "one empty side" % (e, r, k, a, b))
        ctx.nontrivial(bool(want))
        ctx.label("grid:" + e)


COMPONENTS = [Joins(), Filters(), Grid()]
