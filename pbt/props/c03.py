"""C03 -- edit-distance join: sound, exact distance, complete up to the documented gap."""
import math

import pandas as pd
from hypothesis import strategies as st

from .. import calls, canon, enumgen, gen, oracle
from ..env import JOINS, mk_tok
from ..runner import Component

PROPERTY = "C03"
RULE = ("random: G-STRINGS tables x threshold 0-4 (int / integral float) x q 1-4 x padding x "
        "return_set x op x allow_missing x n_jobs incl. the default tokenizer; non-trivial = a "
        "'must' pair at distance>=1 and a q-gram-sharing pair that does not satisfy; "
        "E3: every ordered pair of strings over a small alphabet up to length L in one cross "
        "table, per (q, padding, threshold, op); distinct = case digests")
ASSUMPTIONS = ["py_stringmatching QgramTokenizer is correct (fresh bag-mode instance in the oracle)",
               "own O(len^2) Levenshtein is the distance reference"]

DEFAULT_TOK = {"kind": "qgram", "q": 2, "padding": True, "return_set": False}


def ed_eval(case, ctx, df, lv, rv, lk, rk, tokcfg, allow_missing_rows=True):
    """Soundness + completeness of an edit_distance_join result.
    Returns (n_must_far, n_sharing_no)."""
    t = int(math.floor(case["threshold"]))
    f = oracle.OPS[case["op"]]
    tok = oracle.Tok(tokcfg, False)
    q, padding = tokcfg["q"], tokcfg.get("padding", True)
    got, order = calls.key_pairs(df, case)
    scores = df["_sim_score"].tolist() if "_sim_score" in df.columns else None
    if case.get("out_sim_score", True) and scores is None:
        ctx.violation("join=EDIT_DISTANCE,kind=score-column-absent", "no _sim_score column")
    dist = {}
    cat = {}
    n_must_far = n_sharing_no = 0
    for i, a in enumerate(lv):
        for j, b in enumerate(rv):
            k = (canon.cv(lk[i]), canon.cv(rk[j]))
            if oracle.is_missing(a) or oracle.is_missing(b):
                cat[k] = "missing"
                continue
            d = oracle.levenshtein(a, b)
            dist[k] = d
            sat = bool(f(d, t))
            share = oracle.shares_qgram(tok(a), tok(b))
            cat[k] = "sat" if sat else "no"
            if sat and share:
                cat[k] = "must"
                if d >= 1:
                    n_must_far += 1
                if got[k] == 0:
                    ctx.violation("join=EDIT_DISTANCE,kind=qualifying-pair-missing",
                                  "edit_distance_join threshold=%r op=%s q=%d padding=%s: pair "
                                  "%r (%r, %r) at distance %d shares a q-gram but is not "
                                  "returned" % (case["threshold"], case["op"], q, padding, k,
                                                a, b, d))
            if sat and padding and max(len(a), len(b)) >= q * t - q + 2 and got[k] == 0:
                ctx.violation("join=EDIT_DISTANCE,kind=corollary-pair-missing",
                              "padding on, max len %d >= q*t-q+2=%d: pair %r (%r, %r) at "
                              "distance %d not returned" % (max(len(a), len(b)),
                                                            q * t - q + 2, k, a, b, d))
            if share and not sat:
                n_sharing_no += 1
    for k, c in got.items():
        if k not in cat:
            ctx.violation("join=EDIT_DISTANCE,kind=unknown-key",
                          "output names key pair %r that does not exist" % (k,))
        elif c > 1 and cat[k] != "missing":
            ctx.violation("join=EDIT_DISTANCE,kind=duplicate-pair",
                          "key pair %r occurs %d times" % (k, c))
    for pos, k in enumerate(order):
        c = cat.get(k)
        if c is None or c == "missing":
            continue
        if c == "no":
            ctx.violation("join=EDIT_DISTANCE,kind=non-qualifying-pair-returned",
                          "threshold=%r op=%s: returned pair %r at distance %d"
                          % (case["threshold"], case["op"], k, dist[k]))
        if scores is not None and canon.cv(scores[pos]) != dist[k]:
            ctx.violation("join=EDIT_DISTANCE,kind=wrong-score",
                          "pair %r: _sim_score=%r, Levenshtein distance %d"
                          % (k, scores[pos], dist[k]))
    return n_must_far, n_sharing_no


class Random(Component):
    name = "random"
    kind = "hyp"
    rule = "a must pair at distance>=1 and a q-gram-sharing pair that does not satisfy"

    def examples(self, tier):
        return 400 if tier == "quick" else 2000

    def strategy(self, tier):
        return gen.ed_join_case(tier)

    def check(self, case, ctx):
        L, R = canon.build_pair(case)
        tokcfg = case["tok"] or DEFAULT_TOK
        tok = mk_tok(case["tok"]) if case["tok"] else None
        df = calls.run_join(ctx, case, L, R, tok)
        if df is None:
            return
        a, b = ed_eval(case, ctx, df, calls.lvals(case), calls.rvals(case), calls.lkeys(case),
                       calls.rkeys(case), tokcfg)
        ctx.nontrivial(a > 0 and b > 0)
        ctx.label("op=" + case["op"])
        ctx.label("q=%d" % tokcfg["q"])
        ctx.label("padding", tokcfg.get("padding", True))
        ctx.label("default-tokenizer", case["tok"] is None)
        ctx.label("set-mode-tokenizer", bool(case["tok"] and case["tok"]["return_set"]))
        ctx.label("float-threshold", isinstance(case["threshold"], float))
        ctx.label("n_jobs>1", case["n_jobs"] != 1)
        ctx.label("threshold=%d" % int(case["threshold"]))


_E3_CACHE = {}


def e3_table(alphabet, L):
    key = (alphabet, L)
    if key not in _E3_CACHE:
        strs = enumgen.e3_strings(alphabet, L)
        df = pd.DataFrame({"id": list(range(len(strs))), "v": pd.Series(strs, dtype=object)})
        _E3_CACHE[key] = (strs, df)
    return _E3_CACHE[key]


def e3_configs(tier):
    doms = [("ab", 6)] if tier == "quick" else [("ab", 8), ("abc", 5)]
    for alphabet, L in doms:
        for q in (1, 2, 3):
            for padding in (True, False):
                for t in (0, 1, 2, 3):
                    for op in ("<=", "<", "="):
                        yield {"alphabet": alphabet, "L": L, "q": q, "padding": padding,
                               "threshold": t, "op": op}


class E3(Component):
    name = "E3"
    kind = "enum"
    exhaustive = True
    rule = "every configuration over the full cross table of short strings"

    def bounds(self, tier):
        return {"domains": [["ab", 6]] if tier == "quick" else [["ab", 8], ["abc", 5]],
                "q": [1, 2, 3], "padding": [True, False], "threshold": [0, 1, 2, 3],
                "ops": ["<=", "<", "="]}

    def shards(self, tier):
        return 16

    def budget_s(self, tier):
        return 200 if tier == "quick" else 3000

    def cases(self, tier):
        return e3_configs(tier)

    def check(self, case, ctx):
        strs, T = e3_table(case["alphabet"], case["L"])
        tokcfg = {"kind": "qgram", "q": case["q"], "padding": case["padding"],
                  "return_set": False}
        tok = mk_tok(tokcfg)
        df = ctx.lib(JOINS["EDIT_DISTANCE"], T, T, "id", "id", "v", "v", case["threshold"],
                     case["op"], False, None, None, "l_", "r_", True, 1, False, tok)
        if df is None:
            return
        c = {"threshold": case["threshold"], "op": case["op"], "out_sim_score": True,
             "L": {"key": "id"}, "R": {"key": "id"}}
        keys = list(range(len(strs)))
        ed_eval(c, ctx, df, strs, strs, keys, keys, tokcfg)
        ctx.nontrivial(True)
        ctx.label("E3:%s/%d" % (case["alphabet"], case["L"]))


class Bundled(Component):
    """edit_distance_join on slices of the bundled books data (author names) vs own
    Levenshtein: soundness, distances, completeness for q-gram-sharing pairs."""
    name = "bundled"
    kind = "enum"
    exhaustive = False
    rule = ("every (slice, q, padding, threshold, operator) configuration listed; non-trivial = "
            "non-empty result and a q-gram-sharing pair that does not satisfy")

    def bounds(self, tier):
        return {"slice_rows": 100 if tier == "quick" else 300,
                "slices": 2 if tier == "quick" else 8}

    def shards(self, tier):
        return 16

    def budget_s(self, tier):
        return 200 if tier == "quick" else 3000

    def cases(self, tier):
        b = self.bounds(tier)
        for k in range(b["slices"]):
            for q in (2, 3):
                for padding in (True, False):
                    for t in (1, 2, 4):
                        yield {"offset": 307 * k + 5, "rows": b["slice_rows"], "q": q,
                               "padding": padding, "threshold": t,
                               "op": ["<=", "<", "="][(k + t) % 3], "n_jobs": [1, 3][k % 2]}

    def check(self, case, ctx):
        from .c02 import books_sample
        A, B = books_sample(0, 10 ** 6)
        # alphabetically aligned slices: near-duplicate author names fall into both slices
        A = A[A["Author"].notna()].sort_values("Author", kind="mergesort")
        B = B[B["Author"].notna()].sort_values("Author", kind="mergesort")
        fa = (case["offset"] % 89) / 100.0
        A = A.iloc[int(fa * len(A)):][:case["rows"]]
        B = B.iloc[int(fa * len(B)):][:case["rows"]]
        tokcfg = {"kind": "qgram", "q": case["q"], "padding": case["padding"],
                  "return_set": False}
        with calls.backend(case["n_jobs"]):
            df = ctx.lib(JOINS["EDIT_DISTANCE"], A, B, "ID", "ID", "Author", "Author",
                         case["threshold"], case["op"], False, None, None, "l_", "r_", True,
                         case["n_jobs"], False, mk_tok(tokcfg))
        if df is None:
            return
        c = {"threshold": case["threshold"], "op": case["op"], "out_sim_score": True,
             "L": {"key": "ID"}, "R": {"key": "ID"}}
        a, b = ed_eval(c, ctx, df, A["Author"].tolist(), B["Author"].tolist(), A["ID"].tolist(),
                       B["ID"].tolist(), tokcfg)
        ctx.nontrivial(len(df) > 0 and b > 0)
        ctx.label("bundled:q=%d" % case["q"])
        ctx.label("bundled-has-near-duplicate(d>=1)", a > 0)


@st.composite
def large_ed_case(draw, tier):
    big = tier == "thorough"
    return {"seed": draw(st.integers(0, 2 ** 32 - 1)),
            "nl": draw(st.integers(30, 200 if big else 90)),
            "nr": draw(st.integers(30, 200 if big else 90)),
            "length": draw(st.sampled_from([15, 40, 90])),
            "alphabet": draw(st.sampled_from(["ab", "abcdefgh", "abcdefghijklmnopqrstuvwxyz -", "aé日b "])),
            "q": draw(st.integers(1, 4)), "padding": draw(st.booleans()),
            "return_set": draw(st.booleans()),
            "threshold": draw(st.integers(0, 7)),
            "op": draw(st.sampled_from(["<=", "<=", "<", "="])),
            "n_jobs": draw(st.sampled_from([1, 1, 2, 3, 5, 7, 11, 12, 13, 14, 15, 18, 20, 24, -1]))}


class Large(Component):
    """Larger tables of long strings (15-90 characters, clusters a few edits apart) against a
    banded Levenshtein: soundness, exact distance, completeness for q-gram-sharing pairs."""
    name = "large"
    kind = "hyp"
    rule = "a 'must' pair at distance >= 1 and a q-gram-sharing pair that does not satisfy"

    def examples(self, tier):
        return 15 if tier == "quick" else 200

    def strategy(self, tier):
        return large_ed_case(tier)

    def check(self, case, ctx):
        import random
        rnd = random.Random(case["seed"])
        alpha = case["alphabet"]

        def mutate(s_, k):
            s_ = list(s_)
            for _ in range(k):
                op = rnd.randint(0, 2)
                if op == 0 and s_:
                    s_.pop(rnd.randrange(len(s_)))
                elif op == 1:
                    s_.insert(rnd.randint(0, len(s_)), rnd.choice(alpha))
                elif s_:
                    s_[rnd.randrange(len(s_))] = rnd.choice(alpha)
            return "".join(s_)

        nb = max(2, (case["nl"] + case["nr"]) // 8)
        bases = ["".join(rnd.choice(alpha) for _ in range(rnd.randint(max(1, case["length"] // 2),
                                                                      case["length"])))
                 for _ in range(nb)]
        lv = [mutate(rnd.choice(bases), rnd.randint(0, 5)) for _ in range(case["nl"])]
        rv = [mutate(rnd.choice(bases), rnd.randint(0, 5)) for _ in range(case["nr"])]
        L = pd.DataFrame({"k": [3 * i + 10 ** 9 for i in range(len(lv))],
                          "s": pd.Series(lv, dtype=object)})
        R = pd.DataFrame({"s": pd.Series(rv, dtype=object),
                          "k": pd.Series(["r%d" % i for i in range(len(rv))], dtype=object)})
        tokcfg = {"kind": "qgram", "q": case["q"], "padding": case["padding"],
                  "return_set": case["return_set"]}
        t, op = case["threshold"], case["op"]
        with calls.backend(case["n_jobs"]):
            df = ctx.lib(JOINS["EDIT_DISTANCE"], L, R, "k", "k", "s", "s", t, op, False, None,
                         None, "l_", "r_", True, case["n_jobs"], False, mk_tok(tokcfg))
        if df is None:
            return
        f = oracle.OPS[op]
        otok = oracle.Tok(tokcfg, False)
        got = {}
        for i, j, sc in zip(df["l_k"].tolist(), df["r_k"].tolist(), df["_sim_score"].tolist()):
            got[(i, j)] = got.get((i, j), []) + [sc]
        lk, rk = L["k"].tolist(), R["k"].tolist()
        lt = [set(otok(v)) for v in lv]
        rt = [set(otok(v)) for v in rv]
        who = "edit_distance_join threshold=%d op=%s q=%d padding=%s n_jobs=%d on %dx%d strings " \
              "of length <=%d (seed %d)" % (t, op, case["q"], case["padding"], case["n_jobs"],
                                           len(lv), len(rv), case["length"] + 5, case["seed"])
        far = share_no = 0
        for i, a in enumerate(lv):
            for j, b in enumerate(rv):
                k = (lk[i], rk[j])
                d = oracle.levenshtein_bounded(a, b, t)
                sat = d <= t and bool(f(d, t))
                share = not lt[i].isdisjoint(rt[j])
                scs = got.get(k)
                if scs is not None:
                    if len(scs) > 1:
                        ctx.violation("join=EDIT_DISTANCE,kind=duplicate-pair",
                                      "%s returned %r %d times" % (who, k, len(scs)))
                    if not sat:
                        ctx.violation("join=EDIT_DISTANCE,kind=non-qualifying-pair-returned",
                                      "%s returned %r (%r, %r) whose distance is %s"
                                      % (who, k, a, b, d if d <= t else ">%d" % t))
                    elif canon.cv(scs[0]) != d:
                        ctx.violation("join=EDIT_DISTANCE,kind=wrong-score",
                                      "%s: %r scored %r, distance %d" % (who, k, scs[0], d))
                elif sat and share:
                    ctx.violation("join=EDIT_DISTANCE,kind=qualifying-pair-missing",
                                  "%s does not return %r (%r, %r) at distance %d although they "
                                  "share a q-gram" % (who, k, a, b, d))
                if sat and share and d >= 1:
                    far += 1
                if share and not sat:
                    share_no += 1
        ctx.nontrivial(far > 0 and share_no > 0)
        ctx.label("large:q=%d" % case["q"])
        ctx.label("large:n_jobs>1", case["n_jobs"] != 1)


class SelfJoin(Random):
    """Every case passes the very same DataFrame object as left and right table."""
    name = "selfjoin"

    def examples(self, tier):
        return 250 if tier == "quick" else 800

    def strategy(self, tier):
        return gen.ed_join_case(tier, self_join=True)


COMPONENTS = [Random(), E3(), Bundled(), Large(), SelfJoin()]
