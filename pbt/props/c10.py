"""C10 -- results depend only on the rows and parameters, not on schedule or presentation."""
import atexit
import collections
import json
import os
import subprocess
import sys

import pandas as pd
from hypothesis import strategies as st

from .. import calls, canon, entries, gen, oracle, simfns
from ..env import VERIF, mk_tok, ssj
from ..runner import Component, HarnessError
from . import c04

PROPERTY = "C10"
RULE = ("'variants': every entry point on generated cases; the n_jobs=1 result is compared with "
        "the result at every n_jobs in 2..rows+2 and at -1/-2/-40 (harness-owned schedule: the "
        "split is a function of (rows, n_jobs)), with row permutations of either table, "
        "relabelled indexes, added/reordered columns, a repeated call, and the same call in two "
        "helper processes with other PYTHONHASHSEEDs; _id must be 0..n-1. Non-trivial = "
        "non-empty result for which some n_jobs gives >=2 contributing chunks and >=1 empty "
        "chunk. 'grid': dense rows x n_jobs grid on synthetic tables per entry point. 'e1perm': "
        "E1 size-sweep tables joined in original / reversed row order and chunked. 'pps-perm': "
        "full Prefix/Position/SuffixFilter.filter_tables results under row permutations. "
        "distinct = case digests")
ASSUMPTIONS = ["joblib's threading backend runs the same split/concat code as process workers "
               "(results are collected in submission order); a sample runs on real loky workers",
               "Prefix/Position/SuffixFilter.filter_tables: only qualifying pairs are compared "
               "across n_jobs (superfluous candidates may vary with the chunking)"]

PPS = ("prefix", "position", "suffix")
KF3 = "kind=straddle-pair-membership-varies-with-presentation"


# ------------------------------------------------------------------ record transforms

def permute_table(T, perm):
    T2 = dict(T)
    T2["columns"] = [{"name": c["name"], "kind": c["kind"],
                      "values": [c["values"][i] for i in perm]} for c in T["columns"]]
    T2["index"] = [T["index"][i] for i in perm]
    T2.pop("same_object", None)     # the two sides are permuted independently
    return T2


def relabel(T, kind):
    n = canon.table_len(T)
    T2 = dict(T)
    T2["index"] = {"str": ["x%d" % i for i in range(n)], "dup": [0] * n,
                   "rev": list(range(n, 0, -1)), "float": [i * 1.5 for i in range(n)]}[kind]
    return T2


def add_columns(T):
    n = canon.table_len(T)
    T2 = dict(T)
    cols = [{"name": "zz_unrelated", "kind": "int", "values": [7] * n}] + \
        list(reversed(T["columns"])) + [{"name": "zz_obj", "kind": "obj", "values": [None] * n}]
    T2["columns"] = cols
    return T2


@st.composite
def variant_case(draw, tier):
    case = draw(entries.entry_case(tier))
    nl, nr = canon.table_len(case["L"]), canon.table_len(case["R"])
    case["perm_l"] = list(draw(st.permutations(list(range(nl)))))
    case["perm_r"] = list(draw(st.permutations(list(range(nr)))))
    case["relabel"] = draw(st.sampled_from(["dup", "dup", "str", "rev", "float"]))
    case["real_loky"] = draw(st.integers(0, 39 if tier == "quick" else 79)) == 0
    return case


# ------------------------------------------------------------------ helper processes

_HELPERS = {}


def _helper(seed):
    h = _HELPERS.get(seed)
    if h is None or h.poll() is not None:
        env = dict(os.environ)
        env["PYTHONHASHSEED"] = str(seed)
        h = subprocess.Popen([sys.executable, "-m", "pbt.helper"], cwd=VERIF, env=env,
                             stdin=subprocess.PIPE, stdout=subprocess.PIPE,
                             stderr=subprocess.DEVNULL, universal_newlines=True, bufsize=1)
        _HELPERS[seed] = h
    return h


def _close_helpers():
    for h in _HELPERS.values():
        try:
            h.stdin.close()
            h.wait(timeout=5)
        except Exception:
            try:
                h.kill()
            except Exception:
                pass


atexit.register(_close_helpers)


def ask_helper(seed, case):
    h = _helper(seed)
    h.stdin.write(canon.dumps(case) + "\n")
    h.stdin.flush()
    line = h.stdout.readline()
    if not line:
        raise HarnessError("helper process (PYTHONHASHSEED=%s) died" % seed)
    return json.loads(line)


# ------------------------------------------------------------------ the check

def contributing_chunks(nrows, contributing, k):
    """(#chunks with output, #chunks without) for split_table's documented partition."""
    size = 1.0 / k * nrows
    w = wo = 0
    for i in range(k):
        a, b = int(round(i * size)), int(round((i + 1) * size))
        if any(contributing[a:b]):
            w += 1
        else:
            wo += 1
    return w, wo


def ids_ok(ids):
    return ids is None or ids == list(range(len(ids)))


class Variants(Component):
    name = "variants"
    kind = "hyp"
    rule = "non-empty result; some n_jobs yields >=2 contributing chunks and >=1 empty chunk"

    def examples(self, tier):
        return 100 if tier == "quick" else 600

    def budget_s(self, tier):
        return 240 if tier == "quick" else 2400

    def strategy(self, tier):
        return variant_case(tier)

    def check(self, case, ctx):
        L, R, C = entries.build(case)
        who = entries.describe(case)
        site = entries.site(case)
        e = case["entry"]
        base = entries.run(ctx, case, L, R, C, n_jobs=1)
        if base is None:
            return
        cols0, rows0, ids0 = entries.result(base, case)
        if e in ("join", "filter_tables") and not ids_ok(ids0):
            ctx.violation(site + ",kind=_id-not-0..n-1",
                          "%s n_jobs=1: _id column is %r" % (who, ids0[:10]))
        pps = e == "filter_tables" and case["ftype"] in PPS
        must = None
        if pps:
            must, _ = c04.must_pairs(case)
        nrows = entries.n_split_rows(case, L, R, C)

        spairs = []

        def straddle_only(a, b):
            """True iff every row present in only one of the two results is a pair that the
            reference model classifies as 'straddle' (rounded measures only)."""
            if e != "join" or case["measure"] not in ("JACCARD", "COSINE", "DICE"):
                return False
            if not spairs:
                spairs.append(calls.Pairs(case))
            P = spairs[0]
            diff = list((a - b)) + list((b - a))
            return bool(diff) and all(P.cat.get((r[0], r[1])) == "straddle" for r in diff)

        def compare(df, what, full=True):
            if df is None:
                return
            cols, rows, ids = entries.result(df, case)
            if e in ("join", "filter_tables") and not ids_ok(ids):
                ctx.violation(site + ",kind=_id-not-0..n-1",
                              "%s %s: _id column is %r" % (who, what, (ids or [])[:10]))
            if full:
                if (len(df) or len(base)) and cols != cols0:
                    ctx.violation(site + ",kind=columns-vary",
                                  "%s %s: columns %r vs %r" % (who, what, cols, cols0))
                if rows != rows0 and straddle_only(rows, rows0):
                    # KF-3: the only rows that differ are boundary pairs whose raw score is
                    # below and whose 4-decimal score is at the threshold (membership left
                    # open by C01/C02); the join keeps such a pair iff the filters happen not
                    # to prune it, which depends on the chunk-local token order
                    ctx.violation(KF3, "%s %s: boundary pairs %r are returned in one "
                                  "presentation and not in the other"
                                  % (who, what, sorted(set((r[0], r[1]) for r in
                                                           list((rows - rows0)) +
                                                           list((rows0 - rows))),
                                                       key=repr)[:3]))
                elif rows != rows0:
                    ctx.violation(site + ",kind=rows-vary",
                                  "%s %s: result differs from the n_jobs=1 result on the "
                                  "original presentation: only here %r, only there %r"
                                  % (who, what, list((rows - rows0).items())[:3],
                                     list((rows0 - rows).items())[:3]))
            else:
                got, _ = calls.key_pairs(df, case)
                for k in must:
                    if got[k] == 0:
                        # C04's open SuffixFilter finding also shows here (chunk-dependent order)
                        ctx.violation(
                            c04.drop_sig(case["ftype"]) if case["ftype"] == "suffix" else
                            site + ",kind=qualifying-pair-lost-by-chunking",
                            "%s %s: qualifying pair %r is not listed" % (who, what, k))

        # (a) schedules
        ks = list(range(2, nrows + 3)) + [-1, -2, -40]
        for k in ks:
            compare(entries.run(ctx, case, L, R, C, n_jobs=k), "n_jobs=%d" % k, full=not pps)
        if case.get("real_loky") and nrows >= 2:
            compare(entries.run(ctx, case, L, R, C, n_jobs=2, real=True),
                    "n_jobs=2 (real loky workers)", full=not pps)
            ctx.label("real-loky")
        # (b) row permutations, (c) index labels, (d) columns -- full equality, every entry
        c2 = dict(case)
        c2["L"] = permute_table(case["L"], case["perm_l"])
        c2["R"] = permute_table(case["R"], case["perm_r"])
        L2, R2, _ = entries.build(c2)
        compare(entries.run(ctx, c2, L2, R2, C, n_jobs=1), "with permuted table rows")
        c2r = dict(case)
        c2r["L"] = permute_table(case["L"], list(range(len(L) - 1, -1, -1)))
        c2r["R"] = permute_table(case["R"], list(range(len(R) - 1, -1, -1)))
        L2r, R2r, _ = entries.build(c2r)
        compare(entries.run(ctx, c2r, L2r, R2r, C, n_jobs=1), "with both tables' rows reversed")
        c3 = dict(case)
        c3["L"] = relabel(case["L"], case["relabel"])
        c3["R"] = relabel(case["R"], case["relabel"])
        L3, R3, _ = entries.build(c3)
        compare(entries.run(ctx, c3, L3, R3, C, n_jobs=1), "with relabelled index (%s)"
                % case["relabel"])
        c4 = dict(case)
        c4["L"] = add_columns(case["L"])
        c4["R"] = add_columns(case["R"])
        L4, R4, _ = entries.build(c4)
        compare(entries.run(ctx, c4, L4, R4, C, n_jobs=1), "with added/reordered columns")
        if L is R:
            # (d') a self-join must not depend on the two arguments being one object
            compare(entries.run(ctx, case, L, canon.build_table(case["R"]), C, n_jobs=1),
                    "with the right table passed as a separate copy instead of the same object")
            ctx.label("self-join")
        # (e) repetition, other processes / hash seeds
        compare(entries.run(ctx, case, L, R, C, n_jobs=1), "repeated in the same process")
        for hs in (101, 202):
            r = ask_helper(hs, case)
            if "error" in r:
                raise HarnessError("helper: " + r["error"])
            if "violation" in r:
                ctx.violation(site + ",kind=fails-in-other-process", r["violation"])
                continue
            rows = collections.Counter()
            for row, c in r["rows"]:
                rows[tuple(canon.cv(v) if not isinstance(v, list) else tuple(v) for v in row)] = c
            if rows != rows0 or ((len(base) or r["ids"]) and r["cols"] != cols0):
                ctx.violation(site + ",kind=rows-vary-across-processes",
                              "%s in a process with PYTHONHASHSEED=%d: only there %r, only "
                              "here %r" % (who, hs, list((rows - rows0).items())[:3],
                                           list((rows0 - rows).items())[:3]))
        # non-triviality
        nt = False
        if len(base) and nrows >= 3:
            if e in ("filter_candset", "matcher"):
                kept = set(ids0 or [])
                contrib = [canon.cv(i) in kept for i in case["candset"]["ids"]]
            else:
                _, order = calls.key_pairs(base, case)
                rk_with = set(b for _, b in order)
                rv = calls.rvals(case)
                contrib = [canon.cv(k) in rk_with for k, v in zip(calls.rkeys(case), rv)
                           if not oracle.is_missing(v)]
            for k in range(2, nrows + 1):
                w, wo = contributing_chunks(len(contrib), contrib, k)
                if w >= 2 and wo >= 1:
                    nt = True
                    break
        ctx.nontrivial(nt)
        ctx.label(site)
        ctx.label("result-nonempty", len(base) > 0)
        ctx.label("split-rows>=3", nrows >= 3)


# ------------------------------------------------------------------ dense grid

GRID_ENTRIES = ["jaccard_join", "overlap_coefficient_join", "overlap_join",
                "edit_distance_join", "SizeFilter.filter_tables", "OverlapFilter.filter_tables",
                "PositionFilter.filter_tables", "apply_matcher", "filter_candset"]

WORDS = ["ab", "cd", "ef", "gh", "ij"]


def grid_tables(r):
    """left: 5 rows; right: r rows; right row i matches left row i%5 when i%3 != 2"""
    lv = ["%s %s x%d" % (WORDS[i], WORDS[(i + 1) % 5], i) for i in range(5)]
    rv = []
    for i in range(r):
        if i % 3 == 2:
            rv.append("zz%d yy%d" % (i, i))
        elif i % 7 == 3:
            rv.append(None)
        else:
            j = i % 5
            rv.append("%s %s x%d" % (WORDS[j], WORDS[(j + 1) % 5], j))
    L = pd.DataFrame({"id": list(range(5)), "v": pd.Series(lv, dtype=object),
                      "a": [10 * i for i in range(5)]})
    R = pd.DataFrame({"id": list(range(100, 100 + r)), "v": pd.Series(rv, dtype=object),
                      "b": ["b%d" % i for i in range(r)]})
    return L, R


class Grid(Component):
    name = "grid"
    kind = "enum"
    exhaustive = True
    rule = "every (entry point, rows, n_jobs<=rows+2) cell on the synthetic tables"

    def bounds(self, tier):
        return {"rows": 32 if tier == "quick" else 64, "n_jobs": "1..rows+2, -1, -2",
                "entries": GRID_ENTRIES}

    def shards(self, tier):
        return 16

    def cases(self, tier):
        for e in GRID_ENTRIES:
            for r in range(1, self.bounds(tier)["rows"] + 1):
                yield {"entry": e, "rows": r}

    def run(self, ctx, e, L, R, C, k):
        tok = mk_tok({"kind": "ws", "return_set": True})
        with calls.backend(k):
            if e == "jaccard_join":
                return ctx.lib(ssj.jaccard_join, L, R, "id", "id", "v", "v", tok, 0.5, ">=", True,
                               True, ["a"], ["b"], "l_", "r_", True, k, False)
            if e == "overlap_coefficient_join":
                return ctx.lib(ssj.overlap_coefficient_join, L, R, "id", "id", "v", "v", tok,
                               0.6, ">=", True, False, None, ["b"], "l_", "r_", True, k, False)
            if e == "overlap_join":
                return ctx.lib(ssj.overlap_join, L, R, "id", "id", "v", "v", tok, 2, ">=",
                               False, ["a"], None, "l_", "r_", True, k, False)
            if e == "edit_distance_join":
                return ctx.lib(ssj.edit_distance_join, L, R, "id", "id", "v", "v", 2, "<=",
                               True, None, None, "l_", "r_", True, k, False)
            if e == "SizeFilter.filter_tables":
                f = ssj.SizeFilter(tok, "JACCARD", 0.8)
                return ctx.lib(f.filter_tables, L, R, "id", "id", "v", "v", ["a"], ["b"],
                               n_jobs=k, show_progress=False)
            if e == "OverlapFilter.filter_tables":
                f = ssj.OverlapFilter(tok, 2)
                return ctx.lib(f.filter_tables, L, R, "id", "id", "v", "v", None, ["b"],
                               out_sim_score=True, n_jobs=k, show_progress=False)
            if e == "PositionFilter.filter_tables":
                f = ssj.PositionFilter(tok, "JACCARD", 0.5)
                return ctx.lib(f.filter_tables, L, R, "id", "id", "v", "v", None, None,
                               n_jobs=k, show_progress=False)
            if e == "apply_matcher":
                return ctx.lib(ssj.apply_matcher, C, "l_id", "r_id", L, R, "id", "id", "v", "v",
                               tok, simfns.get("jaccard"), 0.5, ">=", True, ["a"], ["b"],
                               "l_", "r_", True, k, False)
            if e == "filter_candset":
                f = ssj.OverlapFilter(tok, 2)
                return ctx.lib(f.filter_candset, C, "l_id", "r_id", L, R, "id", "id", "v", "v",
                               n_jobs=k, show_progress=False)
        raise HarnessError("unknown grid entry " + e)

    def check(self, case, ctx):
        e, r = case["entry"], case["rows"]
        L, R = grid_tables(r)
        C = None
        nsplit = int(R["v"].notna().sum())
        if e in ("apply_matcher", "filter_candset"):
            pairs = [(i % 5, 100 + i) for i in range(r)]
            C = pd.DataFrame({"_id": [3 * i + 1 for i in range(r)],
                              "l_id": [p[0] for p in pairs], "r_id": [p[1] for p in pairs]})
            nsplit = r
        base = self.run(ctx, e, L, R, C, 1)
        if base is None:
            return
        keep_id = e in ("apply_matcher", "filter_candset")
        rows0 = collections.Counter(r_ if keep_id else r_[1:] for r_ in canon.rows_of(base))
        pps = e == "PositionFilter.filter_tables"
        qual = None
        if pps:
            # qualifying pairs: identical strings
            qual = set((i % 5, 100 + i) for i in range(r) if i % 3 != 2 and i % 7 != 3)
        for k in list(range(2, nsplit + 3)) + [-1, -2]:
            df = self.run(ctx, e, L, R, C, k)
            if df is None:
                continue
            rows = canon.rows_of(df)
            if not keep_id and [x[0] for x in rows] != list(range(len(rows))):
                ctx.violation("entry=%s,kind=_id-not-0..n-1" % e,
                              "%s rows=%d n_jobs=%d: _id is %r" % (e, r, k,
                                                                   [x[0] for x in rows][:8]))
            if pps:
                got = set((x[1], x[2]) for x in rows)
                if not qual <= got:
                    ctx.violation("entry=%s,kind=qualifying-pair-lost-by-chunking" % e,
                                  "%s rows=%d n_jobs=%d loses %r" % (e, r, k,
                                                                     sorted(qual - got)[:3]))
                continue
            rk = collections.Counter(x if keep_id else x[1:] for x in rows)
            if rk != rows0:
                ctx.violation("entry=%s,kind=rows-vary" % e,
                              "%s with %d right/candidate rows: n_jobs=%d differs from n_jobs=1: "
                              "only at %d: %r, only at 1: %r"
                              % (e, r, k, k, list((rk - rows0).items())[:3],
                                 list((rows0 - rk).items())[:3]))
        ctx.nontrivial(len(base) > 0)
        ctx.label("grid:" + e)


class E1Perm(Component):
    """Row-order / chunking invariance on the E1 size-sweep tables: many different set sizes
    in one call, all instance pairs exactly at / next to the threshold."""
    name = "e1perm"
    kind = "enum"
    exhaustive = True
    rule = "every E1 batch (sizes <= N) joined in original order, reversed orders and chunked"

    def bounds(self, tier):
        return {"N": 14 if tier == "quick" else 28, "measures": ["JACCARD", "COSINE", "DICE"],
                "variants": ["reverse right", "reverse left", "n_jobs=3",
                             "PositionFilter.filter_tables qualifying pairs"]}

    def shards(self, tier):
        return 16

    def cases(self, tier):
        from .. import enumgen
        return enumgen.e1_cases(self.bounds(tier)["N"], chunk=60)

    def check(self, case, ctx):
        from .. import enumgen
        from ..env import JOINS
        triples = [tuple(t) for t in case["triples"]]
        L, R = enumgen.e1_tables(triples)
        m, t = case["measure"], case["threshold"]

        def join(a, b, nj=1):
            tok = mk_tok(enumgen.WS)
            with calls.backend(nj):
                df = ctx.lib(JOINS[m], a, b, "id", "id", "v", "v", tok, t, ">=", True, False,
                             None, None, "l_", "r_", True, nj, False)
            if df is None:
                return None
            return collections.Counter(zip(df["l_id"].tolist(), df["r_id"].tolist(),
                                           df["_sim_score"].tolist()))

        base = join(L, R)
        if base is None:
            return
        variants = [("right table reversed", L, R.iloc[::-1], 1),
                    ("left table reversed", L.iloc[::-1], R, 1),
                    ("both reversed, shuffled index",
                     L.iloc[::-1].set_index(pd.Index(["x%d" % i for i in range(len(L))])),
                     R.iloc[::-1], 1),
                    ("n_jobs=3", L, R, 3)]
        for what, a, b, nj in variants:
            r = join(a, b, nj)
            if r is not None and r != base:
                ctx.violation("entry=%s_join,kind=rows-vary" % m.lower(),
                              "%s_join threshold=%r on E1 sizes %r...: result with %s differs: "
                              "only there %r, only in the original order %r"
                              % (m.lower(), t, triples[:3], what, list((r - base).items())[:3],
                                 list((base - r).items())[:3]))
        # PositionFilter.filter_tables: qualifying pairs must not depend on order / chunking
        musts = set((i, i) for i, (n, mm, o) in enumerate(triples)
                    if oracle.classify(m, n, mm, o, t, ">=") == "must")
        for what, a, b, nj in variants:
            f = ssj.PositionFilter(mk_tok(enumgen.WS), m, t)
            with calls.backend(nj):
                df = ctx.lib(f.filter_tables, a, b, "id", "id", "v", "v", n_jobs=nj,
                             show_progress=False)
            if df is None:
                continue
            got = set(zip(df["l_id"].tolist(), df["r_id"].tolist()))
            if not musts <= got:
                ctx.violation("entry=PositionFilter.filter_tables,kind=qualifying-pair-lost-by-"
                              "presentation",
                              "PositionFilter(%s, %r).filter_tables with %s loses qualifying "
                              "pairs %r" % (m, t, what, sorted(musts - got)[:3]))
        ctx.nontrivial(len(base) > 0)
        ctx.label("e1perm:" + m)

    def shrink_case(self, case, ctx):
        return case


@st.composite
def pps_case(draw, tier):
    if draw(st.integers(0, 5)) == 0:
        case = draw(c04.ed_filter_case(tier, ftypes=PPS))
    else:
        case = draw(c04.set_filter_case(tier, ftypes=PPS))
    case["entry"] = "filter_tables"
    case["op"] = ">="
    nl, nr = canon.table_len(case["L"]), canon.table_len(case["R"])
    case["perms"] = [[list(draw(st.permutations(list(range(nl))))),
                      list(draw(st.permutations(list(range(nr)))))] for _ in range(2)]
    return case


class PPSPerm(Component):
    """Prefix/Position/SuffixFilter.filter_tables: the *full* result (superfluous candidates
    included) must not depend on the order of the rows, because the token order is a function
    of token frequencies and the tokens themselves only."""
    name = "pps-perm"
    kind = "hyp"
    rule = "non-empty filter_tables result on tables with >=2 rows on some side"

    def examples(self, tier):
        return 300 if tier == "quick" else 1500

    def strategy(self, tier):
        return pps_case(tier)

    def check(self, case, ctx):
        L, R, _ = entries.build(case)
        who = entries.describe(case)
        base = entries.run(ctx, case, L, R, None, n_jobs=1)
        if base is None:
            return
        cols0, rows0, ids0 = entries.result(base, case)
        nl, nr = len(L), len(R)
        perms = list(case["perms"]) + [[list(range(nl - 1, -1, -1)), list(range(nr - 1, -1, -1))],
                                       [list(range(nl - 1, -1, -1)), list(range(nr))]]
        for pl, pr in perms:
            c2 = dict(case)
            c2["L"] = permute_table(case["L"], pl)
            c2["R"] = permute_table(case["R"], pr)
            L2, R2, _ = entries.build(c2)
            df = entries.run(ctx, c2, L2, R2, None, n_jobs=1)
            if df is None:
                continue
            cols, rows, ids = entries.result(df, case)
            if not ids_ok(ids):
                ctx.violation(entries.site(case) + ",kind=_id-not-0..n-1", "%s: _id %r"
                              % (who, (ids or [])[:8]))
            if rows != rows0:
                ctx.violation(entries.site(case) + ",kind=rows-vary",
                              "%s threshold=%r: result changes when the rows are permuted "
                              "(left %r, right %r): only permuted %r, only original %r"
                              % (who, case["threshold"], pl, pr,
                                 list((rows - rows0).items())[:3],
                                 list((rows0 - rows).items())[:3]))
        ctx.nontrivial(len(base) > 0 and max(nl, nr) >= 2)
        ctx.label(entries.site(case))
        ctx.label("result-nonempty", len(base) > 0)


COMPONENTS = [Variants(), Grid(), E1Perm(), PPSPerm()]
