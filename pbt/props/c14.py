"""C14 -- filters prune what their technique promises to prune."""
import itertools
import math

import pandas as pd
from hypothesis import strategies as st

from .. import calls, canon, enumgen, gen, oracle
from ..env import mk_tok, ssj
from ..runner import Component
from . import c04

PROPERTY = "C14"
RULE = ("'size': exhaustive over token-count pairs n,m<=N x thresholds (1e-3 grid + critical "
        "values of the best attainable similarity) for JACCARD/COSINE/DICE and thresholds 0..N "
        "for EDIT_DISTANCE, via filter_tables on one-row-per-count tables (also with left tables "
        "holding only a few counts) and filter_pair at the "
        "window edges with two token contents; every (measure, threshold) batch is a case. "
        "'nocommon': generated tables and all x/y-only arrangements: Prefix/Position/Overlap "
        "never keep a token-disjoint pair. 'refine': Position.filter_tables is a subset of "
        "Prefix's and Size's; non-trivial = PositionFilter result strictly smaller than one of "
        "them; distinct = case digests")
ASSUMPTIONS = ["tightness band: must keep when the best attainable similarity meets the "
               "threshold (raw and rounded), must drop when it is more than 1e-4 below, either "
               "in between"]


def best(measure, n, m):
    return oracle.sim_values(measure, n, m, min(n, m))


def size_thresholds(N, measure, grid):
    ts = set(g / float(grid) for g in range(1, grid + 1))
    for n in range(1, N + 1):
        for m in range(n, N + 1):
            for s in best(measure, n, m):
                for t in (s, canon.nextafter(s, True), canon.nextafter(s, False), round(s, 4),
                          round(s, 4) + 1e-4, round(s, 4) - 1e-4, s + 1e-4, s + 1.0001e-4):
                    if 1e-4 <= t <= 1.0:
                        ts.add(float(t))
    return sorted(ts)


def count_table(N, variant):
    """one row per token count 1..N (plus an empty row); contents differ per variant"""
    pre = "t" if variant == 0 else "u"
    vals = [" ".join("%s%d" % (pre, k) for k in range(c)) for c in range(0, N + 1)]
    return pd.DataFrame({"id": list(range(N + 1)), "v": pd.Series(vals, dtype=object)})


class SizeTight(Component):
    name = "size"
    kind = "enum"
    exhaustive = True
    rule = "every (measure, threshold) batch decides all N^2 count pairs"

    def bounds(self, tier):
        return {"N": 40 if tier == "quick" else 100, "grid": 1000,
                "measures": ["JACCARD", "COSINE", "DICE", "EDIT_DISTANCE"]}

    def shards(self, tier):
        return 16

    def budget_s(self, tier):
        return 200 if tier == "quick" else 3000

    def cases(self, tier):
        b = self.bounds(tier)
        N = b["N"]
        for m in ("JACCARD", "COSINE", "DICE"):
            ts = size_thresholds(N, m, b["grid"])
            for part in enumgen.chunks(ts, 25):
                yield {"measure": m, "N": N, "thresholds": part}
        for part in enumgen.chunks(list(range(0, N + 1)), 10):
            yield {"measure": "EDIT_DISTANCE", "N": N, "thresholds": part}

    def check(self, case, ctx):
        m, N = case["measure"], case["N"]
        ed = m == "EDIT_DISTANCE"
        if ed:
            tokcfg = {"kind": "qgram", "q": 2, "padding": True, "return_set": False}
            # 'a'*k has k+1 padded 2-grams
            T0 = pd.DataFrame({"id": list(range(N + 1)),
                               "v": pd.Series(["a" * k for k in range(N + 1)], dtype=object)})
            T1 = pd.DataFrame({"id": list(range(N + 1)),
                               "v": pd.Series(["bc" * (k // 2) + "d" * (k % 2)
                                               for k in range(N + 1)], dtype=object)})
            cnt = lambda i: i + 1  # noqa: E731
        else:
            tokcfg = {"kind": "ws", "return_set": True}
            T0, T1 = count_table(N, 0), count_table(N, 1)
            cnt = lambda i: i  # noqa: E731
        lv0, lv1 = T0["v"].tolist(), T1["v"].tolist()
        for t in case["thresholds"]:
            f = calls.make_filter(ctx, {"type": "size", "measure": m, "threshold": t},
                                  mk_tok(tokcfg))
            if f is None:
                continue
            who = "SizeFilter(%s, %r)" % (m, t)

            def verdict(n, mm):
                """'keep' | 'drop' | 'either' for left count n, right count mm (both > 0)"""
                if ed:
                    return "keep" if abs(n - mm) <= t else "drop"
                vals = best(m, n, mm)
                if oracle.classify(m, n, mm, min(n, mm), t, ">=") == "must":
                    return "keep"
                if all(v + 1e-4 < t for v in vals):
                    return "drop"
                return "either"

            # filter_tables: left contents variant 0, right contents variant 1
            df = ctx.lib(f.filter_tables, T0, T1, "id", "id", "v", "v", show_progress=False)
            if df is not None:
                got = set(zip(df["l_id"].tolist(), df["r_id"].tolist()))
                for i in range(N + 1):
                    for j in range(N + 1):
                        n, mm = cnt(i), cnt(j)
                        if n == 0 or mm == 0:
                            continue
                        v = verdict(n, mm)
                        if v == "keep" and (i, j) not in got:
                            ctx.violation("filter=SizeFilter,kind=drops-reachable-counts",
                                          "%s.filter_tables drops counts (%d, %d) although the "
                                          "best attainable similarity %r meets the threshold"
                                          % (who, n, mm, None if ed else best(m, n, mm)))
                        if v == "drop" and (i, j) in got:
                            ctx.violation("filter=SizeFilter,kind=keeps-unreachable-counts",
                                          "%s.filter_tables keeps counts (%d, %d) although %s"
                                          % (who, n, mm, "they differ by more than the threshold"
                                             if ed else "the best attainable similarity %r is "
                                             "more than 1e-4 below the threshold"
                                             % (best(m, n, mm),)))
            # sparse left tables: the probe must not fall back to the nearest indexed size
            # when a right row's whole admissible window misses the sizes present on the left
            lo_i = 0 if ed else 1
            for rows in ([lo_i, lo_i + 1, lo_i + 2], [N - 2, N - 1, N], [N // 2], [lo_i, N]):
                sub = T0.iloc[rows]
                df = ctx.lib(f.filter_tables, sub, T1, "id", "id", "v", "v", show_progress=False)
                if df is None:
                    continue
                got = set(zip(df["l_id"].tolist(), df["r_id"].tolist()))
                for i in rows:
                    for j in range(N + 1):
                        n, mm = cnt(i), cnt(j)
                        if n == 0 or mm == 0:
                            continue
                        v = verdict(n, mm)
                        if v == "keep" and (i, j) not in got:
                            ctx.violation("filter=SizeFilter,kind=drops-reachable-counts",
                                          "%s.filter_tables (left table holding only the counts "
                                          "%r) drops counts (%d, %d)"
                                          % (who, [cnt(x) for x in rows], n, mm))
                        if v == "drop" and (i, j) in got:
                            ctx.violation("filter=SizeFilter,kind=keeps-unreachable-counts",
                                          "%s.filter_tables (left table holding only the counts "
                                          "%r) keeps counts (%d, %d), which cannot reach the "
                                          "threshold" % (who, [cnt(x) for x in rows], n, mm))
            # filter_pair at the window edges, two contents per count pair
            for i in range(N + 1):
                n = cnt(i)
                if n == 0:
                    continue
                edges = set()
                prev = None
                for j in range(N + 1):
                    mm = cnt(j)
                    if mm == 0:
                        continue
                    v = verdict(n, mm)
                    if prev is not None and v != prev[1]:
                        edges.update([prev[0], j])
                    prev = (j, v)
                edges.update([1 if not ed else 0, N])
                for j in edges:
                    mm = cnt(j)
                    v = verdict(n, mm)
                    r0 = ctx.lib(f.filter_pair, lv0[i], lv1[j])
                    r1 = ctx.lib(f.filter_pair, lv1[i], lv1[j])
                    if r0 is None or r1 is None:
                        continue
                    if bool(r0) != bool(r1):
                        ctx.violation("filter=SizeFilter,kind=decision-depends-on-content",
                                      "%s.filter_pair decides counts (%d, %d) differently for "
                                      "two token contents" % (who, n, mm))
                    if v == "keep" and r0:
                        ctx.violation("filter=SizeFilter,kind=drops-reachable-counts",
                                      "%s.filter_pair drops counts (%d, %d)" % (who, n, mm))
                    if v == "drop" and not r0:
                        ctx.violation("filter=SizeFilter,kind=keeps-unreachable-counts",
                                      "%s.filter_pair keeps counts (%d, %d)" % (who, n, mm))
        ctx.nontrivial(True)
        ctx.label("size:" + m)

    def shrink_case(self, case, ctx):
        for t in case["thresholds"]:
            c = dict(case)
            c["thresholds"] = [t]
            try:
                self.check(c, ctx)
            except Exception:
                return c
        return case


NC_FILTERS = ("prefix", "position", "overlap")


@st.composite
def nocommon_case(draw, tier):
    if draw(st.integers(0, 4)) == 0:
        case = draw(c04.ed_filter_case(tier, ftypes=("prefix", "position")))
    else:
        case = draw(c04.set_filter_case(tier, ftypes=NC_FILTERS))
    return case


class NoCommon(Component):
    name = "nocommon"
    kind = "hyp"
    rule = ">=1 token-disjoint pair (not both empty) and >=1 token-sharing pair"

    def examples(self, tier):
        return 250 if tier == "quick" else 1200

    def strategy(self, tier):
        return nocommon_case(tier)

    def check(self, case, ctx):
        L, R = canon.build_pair(case)
        ft, m = case["ftype"], case["measure"]
        f = calls.make_filter(ctx, c04.fcfg_of(case), mk_tok(case["tok"]))
        if f is None:
            return
        bag = m == "EDIT_DISTANCE"
        tok = oracle.Tok(case["tok"], not bag)
        lv, rv = calls.lvals(case), calls.rvals(case)
        lk = [canon.cv(k) for k in calls.lkeys(case)]
        rk = [canon.cv(k) for k in calls.rkeys(case)]
        disjoint = {}
        sharing = 0
        for i, a in enumerate(lv):
            for j, b in enumerate(rv):
                if oracle.is_missing(a) or oracle.is_missing(b):
                    continue
                x, y = set(tok(a)), set(tok(b))
                if not x and not y:
                    continue
                if x.isdisjoint(y):
                    disjoint[(lk[i], rk[j])] = (a, b)
                else:
                    sharing += 1
        who = "%s(%s, %r)" % (c04.CLS[ft], m, case["threshold"])
        site = "filter=%s" % c04.CLS[ft]
        for k, (a, b) in disjoint.items():
            r = ctx.lib(f.filter_pair, a, b)
            if r is not None and not r:
                ctx.violation(site + ",kind=keeps-token-disjoint-pair",
                              "%s.filter_pair(%r, %r) keeps a pair without a common token"
                              % (who, a, b))
        df = calls.run_filter_tables(ctx, f, case, L, R)
        if df is not None:
            got, _ = calls.key_pairs(df, case)
            for k in disjoint:
                if got[k]:
                    ctx.violation(site + ",kind=keeps-token-disjoint-pair",
                                  "%s.filter_tables lists %r = %r which share no token"
                                  % (who, k, disjoint[k]))
        cs = case["candset"]
        C = gen.build_candset(cs)
        out = calls.run_filter_candset(ctx, f, case, C, cs["names"], L, R, case["cand_n_jobs"])
        if out is not None:
            kept = set(zip(canon.col_values(out, cs["names"][0]),
                           canon.col_values(out, cs["names"][1])))
            for k in kept:
                if k in disjoint:
                    ctx.violation(site + ",kind=keeps-token-disjoint-pair",
                                  "%s.filter_candset keeps %r = %r which share no token"
                                  % (who, k, disjoint[k]))
        ctx.nontrivial(bool(disjoint) and sharing > 0)
        ctx.label(site)
        ctx.label("measure=" + m)


class NoCommonE2(Component):
    name = "nocommon-e2"
    kind = "enum"
    exhaustive = True
    rule = "every x/y-only arrangement (no common token) per measure and threshold"

    def bounds(self, tier):
        return {"U": 8 if tier == "quick" else 11, "thresholds": "0.1..1.0 step 0.1; overlap 1..3"}

    def shards(self, tier):
        return 16

    def cases(self, tier):
        U = self.bounds(tier)["U"]
        inst = []
        for u in range(2, U + 1):
            for a in itertools.product("xy", repeat=u):
                if "x" in a and "y" in a:
                    inst.append("".join(a))
        for m in ("JACCARD", "COSINE", "DICE", "OVERLAP"):
            ts = [1, 2, 3] if m == "OVERLAP" else [g / 10.0 for g in range(1, 11)]
            for t in ts:
                for k, part in enumerate(enumgen.chunks(inst, 200)):
                    yield {"measure": m, "threshold": t, "instances": part,
                           "filler": "left" if k % 2 else "right",
                           "orient": "xl" if (k // 2) % 2 else "xr"}

    def check(self, case, ctx):
        m, t = case["measure"], case["threshold"]
        L, R, pairs = enumgen.e2_tables(case["instances"], case["filler"], case["orient"])
        for ft in NC_FILTERS:
            if ft == "overlap" and m != "OVERLAP":
                continue
            f = calls.make_filter(ctx, {"type": ft, "measure": m, "threshold": t},
                                  mk_tok(enumgen.WS))
            if f is None:
                continue
            df = ctx.lib(f.filter_tables, L, R, "id", "id", "v", "v", show_progress=False)
            if df is None:
                continue
            got = set(zip(df["l_id"].tolist(), df["r_id"].tolist()))
            for a, pr in zip(case["instances"], pairs):
                if pr in got:
                    ctx.violation("filter=%s,kind=keeps-token-disjoint-pair" % c04.CLS[ft],
                                  "%s(%s, %r).filter_tables lists the token-disjoint "
                                  "arrangement %s" % (c04.CLS[ft], m, t, a))
        ctx.nontrivial(True)
        ctx.label("nocommon-e2:" + m)


@st.composite
def refine_case(draw, tier):
    if draw(st.integers(0, 4)) == 0:
        case = draw(c04.ed_filter_case(tier, ftypes=("position",)))
    else:
        case = draw(c04.set_filter_case(tier, ftypes=("position",)))
    return case


class Refine(Component):
    name = "refine"
    kind = "hyp"
    rule = "PositionFilter result strictly smaller than PrefixFilter's or SizeFilter's"

    def examples(self, tier):
        return 250 if tier == "quick" else 1200

    def strategy(self, tier):
        return refine_case(tier)

    def check(self, case, ctx):
        L, R = canon.build_pair(case)
        res = {}
        for ft in ("position", "prefix", "size"):
            c = dict(case)
            c["ftype"] = ft
            f = calls.make_filter(ctx, c04.fcfg_of(c), mk_tok(case["tok"]))
            if f is None:
                return
            df = calls.run_filter_tables(ctx, f, c, L, R, n_jobs=1)
            if df is None:
                return
            res[ft], _ = calls.key_pairs(df, case)
        for other in ("prefix", "size"):
            extra = [k for k in res["position"] if res[other][k] == 0]
            if extra:
                ctx.violation("filter=PositionFilter,kind=not-subset-of-%s" % other,
                              "PositionFilter(%s, %r).filter_tables lists %r which %s does not"
                              % (case["measure"], case["threshold"], extra[:3],
                                 c04.CLS[other]))
        ctx.nontrivial(len(res["position"]) < max(len(res["prefix"]), len(res["size"])))
        ctx.label("measure=" + case["measure"])
        ctx.label("position-nonempty", len(res["position"]) > 0)


class LargeTables(Component):
    """No-common-token and refinement guarantees on the larger synthetic tables of C02."""
    name = "large"
    kind = "hyp"
    rule = "a token-disjoint pair and PositionFilter result strictly smaller than another's"

    def examples(self, tier):
        return 12 if tier == "quick" else 300

    def strategy(self, tier):
        from .c02 import large_case
        return large_case(tier)

    def check(self, case, ctx):
        from .c02 import large_tables
        L, R, lv, rv = large_tables(case["seed"], case["nl"], case["nr"], case["vocab"],
                                    case["maxtok"])
        m = case["measure"] if case["measure"] != "OVERLAP_COEFFICIENT" else "DICE"
        t = max(1, case["tgrid"] // 12) if m == "OVERLAP" else case["tgrid"] / 100.0
        nj = case["n_jobs"]
        lk, rk = L["key"].tolist(), R["key"].tolist()
        ls = [None if v is None else frozenset(v.split()) for v in lv]
        rs = [None if v is None else frozenset(v.split()) for v in rv]
        res = {}
        for ft in ("position", "prefix", "size", "overlap"):
            if ft == "overlap":
                fcfg = {"type": ft, "threshold": t if m == "OVERLAP" else 1}
            else:
                fcfg = {"type": ft, "measure": m, "threshold": t}
            f = calls.make_filter(ctx, fcfg, mk_tok({"kind": "ws", "return_set": True}))
            if f is None:
                return
            k = nj if ft in ("size", "overlap") else 1
            with calls.backend(k):
                df = ctx.lib(f.filter_tables, L, R, "key", "key", "val", "val", n_jobs=k,
                             show_progress=False)
            if df is None:
                return
            res[ft] = set(zip(df["l_key"].tolist(), df["r_key"].tolist()))
        ndisj = 0
        for i, x in enumerate(ls):
            for j, y in enumerate(rs):
                if x is None or y is None or (not x and not y):
                    continue
                if x.isdisjoint(y):
                    ndisj += 1
                    for ft in ("position", "prefix", "overlap"):
                        if (lk[i], rk[j]) in res[ft]:
                            ctx.violation("filter=%s,kind=keeps-token-disjoint-pair"
                                          % c04.CLS[ft],
                                          "%s(%s, %r).filter_tables on %dx%d synthetic rows "
                                          "(seed %d) lists %r which share no token"
                                          % (c04.CLS[ft], m, t, case["nl"], case["nr"],
                                             case["seed"], (lv[i], rv[j])))
        for other in ("prefix", "size"):
            extra = res["position"] - res[other]
            if extra:
                ctx.violation("filter=PositionFilter,kind=not-subset-of-%s" % other,
                              "PositionFilter(%s, %r).filter_tables on %dx%d synthetic rows (seed "
                              "%d) lists %r which %s does not"
                              % (m, t, case["nl"], case["nr"], case["seed"],
                                 sorted(extra, key=repr)[:3], c04.CLS[other]))
        ctx.nontrivial(ndisj > 0 and len(res["position"]) < max(len(res["prefix"]),
                                                                len(res["size"])))
        ctx.label("large:" + m)


COMPONENTS = [SizeTight(), NoCommon(), NoCommonE2(), Refine(), LargeTables()]
