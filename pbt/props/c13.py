"""C13 -- joins obey transposition, threshold-refinement and operator-partition laws."""
import math

from hypothesis import strategies as st

from .. import calls, canon, enumgen, gen, oracle
from ..env import JOINS, mk_tok, ssj
from ..runner import Component

PROPERTY = "C13"
RULE = ("'laws': all six joins on G-TABLE / G-STRINGS cases with a second threshold drawn from "
        "G-THRESHOLD: J(A,B) vs J(B,A); J(strict) vs score-filtered J(lax); J(>=) vs J(>) + "
        "J(=) (<=,<,= for edit distance); non-trivial = refinement with both runs non-empty "
        "and different, or partition with both parts non-empty. 'e1batch': the same laws on "
        "E1 size-sweep tables at their critical thresholds. 'bundled': books / person data. "
        "The reference model only classifies excluded pairs (empty-empty, straddle); distinct "
        "= case digests")
ASSUMPTIONS = ["no external oracle: relations between runs of the library itself",
               "exclusions per C13: empty-empty pairs and pairs whose raw and rounded score "
               "straddle a threshold (classified with the reference model)"]

SIM = ("JACCARD", "COSINE", "DICE", "OVERLAP_COEFFICIENT")


class Laws(object):
    """Law checker over a `run(threshold, op, swapped) -> {pair: score}` callable."""

    def __init__(self, ctx, measure, run, excluded, who):
        self.ctx, self.m, self.run, self.excluded, self.who = ctx, measure, run, excluded, who
        self.ed = measure == "EDIT_DISTANCE"
        self.ge, self.gt = ("<=", "<") if self.ed else (">=", ">")
        self.site = "join=%s" % measure

    def meets(self, score, t, op):
        if self.ed:
            t = int(math.floor(t))
        return bool(oracle.OPS[op](score, t))

    def transposition(self, t, op):
        a = self.run(t, op, False)
        b = self.run(t, op, True)
        if a is None or b is None:
            return None
        ex = self.excluded(t, op)
        a2 = dict((k, v) for k, v in a.items() if k not in ex)
        b2 = dict(((k[1], k[0]), v) for k, v in b.items() if (k[1], k[0]) not in ex)
        if set(a2) != set(b2):
            self.ctx.violation(self.site + ",law=transposition,kind=pairs-differ",
                               "%s threshold=%r op=%s: J(A,B) has %r that J(B,A) lacks; J(B,A) "
                               "has %r that J(A,B) lacks"
                               % (self.who, t, op, sorted(set(a2) - set(b2), key=repr)[:3],
                                  sorted(set(b2) - set(a2), key=repr)[:3]))
        for k in a2:
            if k in b2 and canon.cv(a2[k]) != canon.cv(b2[k]):
                self.ctx.violation(self.site + ",law=transposition,kind=scores-differ",
                                   "%s threshold=%r: pair %r scores %r vs %r after swapping the "
                                   "tables" % (self.who, t, k, a2[k], b2[k]))
        return a

    def refinement(self, lax, strict, jl=None):
        if jl is None:
            jl = self.run(lax, self.ge, False)
        js = self.run(strict, self.ge, False)
        if jl is None or js is None:
            return False
        ex = self.excluded(lax, self.ge) | self.excluded(strict, self.ge)
        want = dict((k, v) for k, v in jl.items()
                    if k not in ex and self.meets(v, strict, self.ge))
        got = dict((k, v) for k, v in js.items() if k not in ex)
        if set(want) != set(got):
            self.ctx.violation(self.site + ",law=refinement,kind=pairs-differ",
                               "%s: J(threshold=%r) is not the part of J(threshold=%r) whose "
                               "score meets %r: missing %r, extra %r"
                               % (self.who, strict, lax, strict,
                                  sorted(set(want) - set(got), key=repr)[:3],
                                  sorted(set(got) - set(want), key=repr)[:3]))
        for k in want:
            if k in got and canon.cv(want[k]) != canon.cv(got[k]):
                self.ctx.violation(self.site + ",law=refinement,kind=scores-differ",
                                   "%s: pair %r scores %r at threshold %r but %r at %r"
                                   % (self.who, k, want[k], lax, got[k], strict))
        return len(got) > 0 and len(got) < len([k for k in jl if k not in ex])

    def partition(self, t, jge=None):
        if jge is None:
            jge = self.run(t, self.ge, False)
        jgt = self.run(t, self.gt, False)
        jeq = self.run(t, "=", False)
        if jge is None or jgt is None or jeq is None:
            return False
        ex = self.excluded(t, self.ge) | self.excluded(t, self.gt) | self.excluded(t, "=")
        a = set(k for k in jge if k not in ex)
        b = set(k for k in jgt if k not in ex)
        c = set(k for k in jeq if k not in ex)
        if b & c:
            self.ctx.violation(self.site + ",law=partition,kind=not-disjoint",
                               "%s threshold=%r: %r returned by both '%s' and '='"
                               % (self.who, t, sorted(b & c, key=repr)[:3], self.gt))
        if a != (b | c):
            self.ctx.violation(self.site + ",law=partition,kind=union-differs",
                               "%s threshold=%r: '%s' result minus ('%s' + '=') = %r; the "
                               "reverse = %r" % (self.who, t, self.ge, self.gt,
                                                 sorted(a - (b | c), key=repr)[:3],
                                                 sorted((b | c) - a, key=repr)[:3]))
        for k in a:
            for other in (jgt, jeq):
                if k in other and canon.cv(other[k]) != canon.cv(jge[k]):
                    self.ctx.violation(self.site + ",law=partition,kind=scores-differ",
                                       "%s threshold=%r: pair %r scored %r and %r"
                                       % (self.who, t, k, jge[k], other[k]))
        return len(b) > 0 and len(c) > 0


def result_map(df, lk, rk):
    if df is None:
        return None
    a = canon.col_values(df, lk)
    b = canon.col_values(df, rk)
    return dict(zip(zip(a, b), df["_sim_score"].tolist()))


@st.composite
def law_case(draw, tier):
    if draw(st.integers(0, 5)) == 0:
        case = draw(gen.ed_join_case(tier, missing="none", allow_missing=False, score=True,
                                     default_tok=False))
        case["threshold2"] = draw(st.integers(0, 4))
        # non-integral thresholds are valid input (the join floors them, for every operator)
        frac = draw(st.sampled_from([0, 0, 0.5, 0.25, 0.999]))
        if frac:
            case["threshold"] = int(case["threshold"]) + frac
            if draw(st.booleans()):
                case["threshold2"] = case["threshold2"] + draw(st.sampled_from([0.5, 0.75]))
    else:
        case = draw(gen.set_join_case(tier, missing="none", allow_missing=False, score=True))
        lv = canon.table_column(case["L"], case["L"]["attr"])["values"]
        rv = canon.table_column(case["R"], case["R"]["attr"])["values"]
        if case["measure"] == "OVERLAP":
            case["threshold2"] = draw(gen.overlap_threshold(case["tok"], lv, rv))
            # overlap thresholds need not be integral (any positive number is accepted)
            frac = draw(st.sampled_from([0, 0, 0.5, 0.25]))
            if frac:
                case["threshold"] = max(case["threshold"] - frac, 0.25)   # must stay positive
                if draw(st.booleans()):
                    case["threshold2"] = case["threshold2"] + 0.5
        else:
            case["threshold2"] = draw(gen.sim_threshold(case["measure"], case["tok"], lv, rv))
    case["l_out"] = None
    case["r_out"] = None
    return case


class LawsRandom(Component):
    name = "laws"
    kind = "hyp"
    rule = "refinement runs non-empty and different, or both partition parts non-empty"

    def examples(self, tier):
        return 250 if tier == "quick" else 800

    def strategy(self, tier):
        return law_case(tier)

    def check(self, case, ctx):
        L, R = canon.build_pair(case)
        m = case["measure"]
        lkc, rkc = calls.out_key_cols(case)
        swapped = dict(case)
        swapped["L"], swapped["R"] = case["R"], case["L"]
        swapped["prefix"] = case["prefix"]
        slk, srk = calls.out_key_cols(swapped)
        cache = {}

        def run(t, op, sw):
            key = (t, op, sw)
            if key not in cache:
                c = dict(swapped if sw else case)
                c["threshold"], c["op"] = t, op
                tok = mk_tok(case["tok"]) if case["tok"] else None
                df = calls.run_join(ctx, c, R if sw else L, L if sw else R, tok)
                cache[key] = result_map(df, slk if sw else lkc, srk if sw else rkc)
            return cache[key]

        pcache = {}

        def excluded(t, op):
            if m == "EDIT_DISTANCE":
                return set()
            key = (t, op)
            if key not in pcache:
                P = calls.Pairs(case, m, t, op)
                pcache[key] = set(k for k, c in P.cat.items() if c in ("bothempty", "straddle"))
            return pcache[key]

        laws = Laws(ctx, m, run, excluded, m.lower() + "_join")
        t1, t2 = case["threshold"], case["threshold2"]
        base = laws.transposition(t1, case["op"])
        ed = m == "EDIT_DISTANCE"
        lax, strict = (max(t1, t2), min(t1, t2)) if ed else (min(t1, t2), max(t1, t2))
        nt1 = laws.refinement(lax, strict) if t1 != t2 else False
        nt2 = laws.partition(t1)
        ctx.nontrivial(bool(nt1) or bool(nt2))
        ctx.label("measure=" + m)
        ctx.label("refinement-nontrivial", bool(nt1))
        ctx.label("partition-nontrivial", bool(nt2))
        ctx.label("transposition-nonempty", bool(base))
        ctx.label("n_jobs>1", case["n_jobs"] != 1)


class E1Batch(Component):
    name = "e1batch"
    kind = "enum"
    exhaustive = True
    rule = "every E1 batch: all instance pairs sit exactly at / next to the threshold"

    def bounds(self, tier):
        return {"N": 26 if tier == "quick" else 52, "measures": ["JACCARD", "COSINE", "DICE"]}

    def shards(self, tier):
        return 16

    def budget_s(self, tier):
        return 200 if tier == "quick" else 3000

    def cases(self, tier):
        return enumgen.e1_cases(self.bounds(tier)["N"])

    def check(self, case, ctx):
        triples = [tuple(t) for t in case["triples"]]
        L, R = enumgen.e1_tables(triples)
        m, t = case["measure"], case["threshold"]
        cache = {}

        def run(thr, op, sw):
            key = (thr, op, sw)
            if key not in cache:
                tok = mk_tok(enumgen.WS)
                a, b = (R, L) if sw else (L, R)
                df = ctx.lib(JOINS[m], a, b, "id", "id", "v", "v", tok, thr, op, True, False,
                             None, None, "l_", "r_", True, 1, False)
                cache[key] = result_map(df, "l_id", "r_id")
            return cache[key]

        def excluded(thr, op):
            ex = set()
            for i, (n, mm, o) in enumerate(triples):
                if oracle.classify(m, n, mm, o, thr, op) == "straddle":
                    ex.add((i, i))
            return ex

        laws = Laws(ctx, m, run, excluded, m.lower() + "_join on E1 batch %r" % (triples[:4],))
        laws.transposition(t, ">=")
        lax = max(1e-4, round(t - 0.07, 4))
        laws.refinement(lax, t)
        laws.partition(t)
        ctx.nontrivial(True)
        ctx.label("e1batch:" + m)

    def shrink_case(self, case, ctx):
        for tr in case["triples"]:
            c = dict(case)
            c["triples"] = [tr]
            try:
                self.check(c, ctx)
            except Exception:
                return c
        return case


_DATA = {}


def bundled(name):
    if name not in _DATA:
        if name == "books":
            A, B = ssj.load_books_dataset()
            A = A[["ID", "Title"]].copy()
            B = B[["ID", "Title"]].copy()
            key, attr = ("ID", "ID"), ("Title", "Title")
        else:
            A, B = ssj.load_person_dataset()
            A = A[["A.id", "A.name", "A.address"]].copy()
            B = B[["B.id", "B.name", "B.address"]].copy()
            key, attr = ("A.id", "B.id"), ("A.address", "B.address")
        for df, a in ((A, attr[0]), (B, attr[1])):
            df[a] = df[a].astype(object)
        _DATA[name] = (A, B, key, attr)
    return _DATA[name]


def bundled_cases(tier):
    sims = [(0.4, 0.7), (0.5, 0.8), (0.3, 0.6), (0.75, 1.0), (0.6, 0.9)]
    if tier == "quick":
        sims = sims[:2]
    toks = [{"kind": "ws", "return_set": True}, {"kind": "qgram", "q": 3, "padding": True,
                                                 "return_set": True}]
    for data in ("person", "books"):
        for m in ("JACCARD", "COSINE", "DICE", "OVERLAP_COEFFICIENT"):
            for tok in (toks if tier == "thorough" else toks[:1]):
                for lax, strict in sims:
                    yield {"data": data, "measure": m, "tok": tok, "lax": lax, "strict": strict}
        for lax, strict in ([(2, 4), (3, 6), (2.5, 3.5)] if tier == "quick" else
                            [(1, 2), (2, 4), (3, 6), (5, 9), (2.5, 3.5), (0.5, 1.5)]):
            yield {"data": data, "measure": "OVERLAP", "tok": toks[0], "lax": lax,
                   "strict": strict}
        for lax, strict in ([(3, 1), (2.5, 1.5)] if tier == "quick" else
                            [(3, 1), (2, 0), (4, 2), (2.5, 1.5), (3.75, 0.5)]):
            yield {"data": data, "measure": "EDIT_DISTANCE",
                   "tok": {"kind": "qgram", "q": 2, "padding": True, "return_set": False},
                   "lax": lax, "strict": strict}


class Bundled(Component):
    name = "bundled"
    kind = "enum"
    exhaustive = False
    rule = "law instances on the bundled books (3022x3099 titles) and person tables"

    def shards(self, tier):
        return 16

    def budget_s(self, tier):
        return 200 if tier == "quick" else 3000

    def cases(self, tier):
        return bundled_cases(tier)

    def check(self, case, ctx):
        A, B, key, attr = bundled(case["data"])
        m = case["measure"]
        otok = oracle.Tok(case["tok"], True)
        lval = dict(zip([canon.cv(k) for k in A[key[0]].tolist()], A[attr[0]].tolist()))
        rval = dict(zip([canon.cv(k) for k in B[key[1]].tolist()], B[attr[1]].tolist()))
        cache = {}

        def run(thr, op, sw):
            k = (thr, op, sw)
            if k not in cache:
                tok = mk_tok(case["tok"])
                a, b = (B, A) if sw else (A, B)
                ka, kb = (key[1], key[0]) if sw else key
                aa, ab = (attr[1], attr[0]) if sw else attr
                if m == "EDIT_DISTANCE":
                    df = ctx.lib(JOINS[m], a, b, ka, kb, aa, ab, thr, op, False, None, None,
                                 "l_", "r_", True, 1, False, tok)
                elif m == "OVERLAP":
                    df = ctx.lib(JOINS[m], a, b, ka, kb, aa, ab, tok, thr, op, False, None,
                                 None, "l_", "r_", True, 1, False)
                else:
                    df = ctx.lib(JOINS[m], a, b, ka, kb, aa, ab, tok, thr, op, True, False,
                                 None, None, "l_", "r_", True, 1, False)
                cache[k] = result_map(df, "l_" + ka, "r_" + kb)
            return cache[k]

        def excluded(thr, op):
            if m in ("EDIT_DISTANCE", "OVERLAP"):
                return set()
            ex = set()
            for (thr2, op2, sw), res in list(cache.items()):
                if res is None:
                    continue
                for k, s in res.items():
                    kk = (k[1], k[0]) if sw else k
                    if kk in ex:
                        continue
                    if abs(float(s) - thr) <= 1.5e-4 or float(s) == 1.0:
                        a, b = lval.get(kk[0]), rval.get(kk[1])
                        if oracle.is_missing(a) or oracle.is_missing(b):
                            continue
                        x, y = set(otok(a)), set(otok(b))
                        if not x and not y:
                            ex.add(kk)
                        elif x and y and oracle.classify(m, len(x), len(y), len(x & y), thr,
                                                         op) == "straddle":
                            ex.add(kk)
            return ex

        laws = Laws(ctx, m, run, excluded, "%s_join on the bundled %s data (%s)"
                    % (m.lower(), case["data"], case["tok"]["kind"]))
        ge = "<=" if m == "EDIT_DISTANCE" else ">="
        # populate the cache first so that `excluded` sees every run
        for thr in (case["lax"], case["strict"]):
            run(thr, ge, False)
        run(case["strict"], ge, True)
        run(case["strict"], "<" if m == "EDIT_DISTANCE" else ">", False)
        run(case["strict"], "=", False)
        laws.transposition(case["strict"], ge)
        a = laws.refinement(case["lax"], case["strict"])
        b = laws.partition(case["strict"])
        ctx.nontrivial(bool(a) or bool(b))
        ctx.label("bundled:%s:%s" % (case["data"], m))


@st.composite
def large_law_case(draw, tier):
    from .c02 import large_case
    case = draw(large_case(tier))
    case["tgrid2"] = draw(st.integers(1, 100))
    return case


class LargeLaws(Component):
    """The three laws on the larger synthetic tables (40-400 rows, long values, Zipf
    vocabulary, n_jobs up to 24)."""
    name = "large"
    kind = "hyp"
    rule = "refinement runs non-empty and different, or both partition parts non-empty"

    def examples(self, tier):
        return 8 if tier == "quick" else 150

    def strategy(self, tier):
        return large_law_case(tier)

    def check(self, case, ctx):
        from .c02 import large_tables
        L, R, lv, rv = large_tables(case["seed"], case["nl"], case["nr"], case["vocab"],
                                    case["maxtok"])
        m = case["measure"]
        nj = case["n_jobs"]
        lsets = dict(zip(L["key"].tolist(), [None if v is None else frozenset(v.split())
                                             for v in lv]))
        rsets = dict(zip(R["key"].tolist(), [None if v is None else frozenset(v.split())
                                             for v in rv]))
        cache = {}

        def run(thr, op, sw):
            k = (thr, op, sw)
            if k not in cache:
                tok = mk_tok({"kind": "ws", "return_set": True})
                a, b = (R, L) if sw else (L, R)
                with calls.backend(nj):
                    if m == "OVERLAP":
                        df = ctx.lib(JOINS[m], a, b, "key", "key", "val", "val", tok, thr, op,
                                     False, None, None, "l_", "r_", True, nj, False)
                    else:
                        df = ctx.lib(JOINS[m], a, b, "key", "key", "val", "val", tok, thr, op,
                                     True, False, None, None, "l_", "r_", True, nj, False)
                cache[k] = result_map(df, "l_key", "r_key")
            return cache[k]

        def excluded(thr, op):
            ex = set()
            for (t2, o2, sw), res in list(cache.items()):
                if res is None:
                    continue
                for k in res:
                    kk = (k[1], k[0]) if sw else k
                    x, y = lsets.get(kk[0]), rsets.get(kk[1])
                    if x is None or y is None:
                        continue
                    if not x and not y:
                        ex.add(kk)
                    elif x and y and oracle.classify(m, len(x), len(y), len(x & y), thr,
                                                     op) == "straddle":
                        ex.add(kk)
            return ex

        def thr_of(g):
            return max(1, g // 12) if m == "OVERLAP" else g / 100.0

        t1, t2 = thr_of(case["tgrid"]), thr_of(case["tgrid2"])
        for thr in (t1, t2):
            for op in (">=", ">", "="):
                run(thr, op, False)
        run(t1, ">=", True)
        laws = Laws(ctx, m, run, excluded, "%s_join on %dx%d synthetic rows (seed %d, n_jobs=%d)"
                    % (m.lower(), case["nl"], case["nr"], case["seed"], nj))
        laws.transposition(t1, ">=")
        a = laws.refinement(min(t1, t2), max(t1, t2)) if t1 != t2 else False
        b = laws.partition(t1)
        c = laws.partition(t2)
        ctx.nontrivial(bool(a) or bool(b) or bool(c))
        ctx.label("large:" + m)


@st.composite
def transpose_missing_case(draw, tier):
    pattern = draw(st.sampled_from(["left", "right", "both", "both"]))
    if draw(st.integers(0, 5)) == 0:
        case = draw(gen.ed_join_case(tier, missing=pattern, score=True, default_tok=False))
    else:
        case = draw(gen.set_join_case(tier, missing=pattern, score=True))
    if draw(st.integers(0, 3)) > 0:
        case["allow_missing"] = True
    case["l_out"] = None
    case["r_out"] = None
    return case


class TransposeMissing(Component):
    """Transposition on tables with missing join values (allow_missing on and off): the pairs
    with a missing side must swap like every other pair (scores NaN on both sides).  Only
    the transposition law is checked here -- a missing pair has no score to refine or
    partition on."""
    name = "transpose-missing"
    kind = "hyp"
    rule = "allow_missing=True with a missing value on some side and >=1 returned pair"

    def examples(self, tier):
        return 300 if tier == "quick" else 1000

    def strategy(self, tier):
        return transpose_missing_case(tier)

    def check(self, case, ctx):
        L, R = canon.build_pair(case)
        m = case["measure"]
        lkc, rkc = calls.out_key_cols(case)
        swapped = dict(case)
        swapped["L"], swapped["R"] = case["R"], case["L"]
        slk, srk = calls.out_key_cols(swapped)

        def run(t, op, sw):
            c = dict(swapped if sw else case)
            tok = mk_tok(case["tok"]) if case["tok"] else None
            df = calls.run_join(ctx, c, R if sw else L, L if sw else R, tok)
            return result_map(df, slk if sw else lkc, srk if sw else rkc)

        def excluded(t, op):
            if m == "EDIT_DISTANCE":
                return set()
            P = calls.Pairs(case, m, t, op)
            return set(k for k, c in P.cat.items() if c in ("bothempty", "straddle"))

        laws = Laws(ctx, m, run, excluded, m.lower() + "_join (allow_missing=%r)"
                    % case["allow_missing"])
        base = laws.transposition(case["threshold"], case["op"])
        lv, rv = calls.lvals(case), calls.rvals(case)
        has_missing = any(oracle.is_missing(v) for v in lv + rv)
        ctx.nontrivial(bool(base) and has_missing and case["allow_missing"])
        ctx.label("measure=" + m)
        ctx.label("allow_missing", case["allow_missing"])
        ctx.label("dup-index", len(set(map(repr, case["L"]["index"]))) < len(case["L"]["index"]))


COMPONENTS = [LawsRandom(), E1Batch(), Bundled(), LargeLaws(), TransposeMissing()]
