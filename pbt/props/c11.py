"""C11 -- output tables have the documented columns and faithfully project source rows."""
from hypothesis import strategies as st

from .. import calls, canon, entries, gen
from ..env import JOINS, mk_tok, ssj
from ..runner import Component
from . import c04, c05

PROPERTY = "C11"
RULE = ("G-TABLE with shuffled column order and extra dtypes x attribute requests (None, [], "
        "subsets, permutations, duplicates, key and join attribute) x prefixes x out_sim_score x "
        "all six joins and all five filter_tables, biased so that normal, empty-set and "
        "missing-value rows occur; non-trivial = >=2 requested attributes on some side in an "
        "order different from the table's and >=1 output row; distinct = case digests")
ASSUMPTIONS = ["values compared canonically: NaN/None/NaT equal, ints equal to integral floats "
               "(pd.concat upcasts), exact for strings/bools/timestamps"]


@st.composite
def projection_case(draw, tier, self_join=None):
    case = draw(entries.entry_case(tier, entries=("join", "filter_tables"),
                                   missing=draw(st.sampled_from(["both", "left", "right",
                                                                 "none"])),
                                   self_join=self_join))
    # force interesting attribute requests most of the time
    if draw(st.integers(0, 3)) > 0:
        for side, key in (("L", "l_out"), ("R", "r_out")):
            names = gen.col_names(case[side])
            k = draw(st.integers(1, min(5, len(names) + 1)))
            case[key] = draw(st.lists(st.sampled_from(names), min_size=k, max_size=k))
    if case["R"].get("same_object") and draw(st.integers(0, 3)) > 0:
        # self-join asking both sides for the same (>= 2 distinct) attributes in another order
        names = gen.col_names(case["L"])
        k = draw(st.integers(2, len(names)))
        case["l_out"] = list(draw(st.permutations(names)))[:k]
        how = draw(st.sampled_from(["reverse", "rotate", "swap"]))
        lo = case["l_out"]
        case["r_out"] = {"reverse": lo[::-1], "rotate": lo[1:] + lo[:1],
                         "swap": lo[:-2] + [lo[-1], lo[-2]]}[how]
    if draw(st.booleans()):
        case["allow_missing"] = True
    if draw(st.booleans()):
        case["allow_empty"] = True
    return case


def expected_columns(case):
    la = c05.model_attrs(case.get("l_out"), case["L"]["key"])
    ra = c05.model_attrs(case.get("r_out"), case["R"]["key"])
    p = case["prefix"]
    cols = ["_id", p[0] + case["L"]["key"], p[1] + case["R"]["key"]]
    cols += [p[0] + a for a in (la or [])]
    cols += [p[1] + a for a in (ra or [])]
    if case["entry"] == "join":
        score = case.get("out_sim_score", True)
    else:
        score = case["ftype"] == "overlap" and case.get("out_sim_score", False)
    if score:
        cols.append("_sim_score")
    return cols, la or [], ra or []


class Projection(Component):
    name = "projection"
    kind = "hyp"
    rule = ">=2 requested attributes in non-table order on some side and >=1 output row"

    def examples(self, tier):
        return 500 if tier == "quick" else 1500

    def strategy(self, tier):
        return projection_case(tier)

    def check(self, case, ctx):
        L, R, C = entries.build(case)
        who = entries.describe(case)
        site = entries.site(case)
        df = entries.run(ctx, case, L, R, C)
        if df is None:
            return
        cols, la, ra = expected_columns(case)
        if [str(c) for c in df.columns] != cols:
            ctx.violation(site + ",kind=wrong-columns",
                          "%s l_out_attrs=%r r_out_attrs=%r prefixes=%r out_sim_score=%r: "
                          "columns %r, expected %r" % (who, case.get("l_out"), case.get("r_out"),
                                                       case["prefix"], case.get("out_sim_score"),
                                                       list(df.columns), cols))
        lsrc = dict((c["name"], L[c["name"]].tolist()) for c in case["L"]["columns"])
        rsrc = dict((c["name"], R[c["name"]].tolist()) for c in case["R"]["columns"])
        lpos = dict((canon.cv(k), i) for i, k in enumerate(lsrc[case["L"]["key"]]))
        rpos = dict((canon.cv(k), i) for i, k in enumerate(rsrc[case["R"]["key"]]))
        rows = canon.rows_of(df)
        P = None
        if case["measure"] != "EDIT_DISTANCE":
            P = calls.Pairs(case, case["measure"] if case["measure"] != "OVERLAP_COEFFICIENT"
                            else "OVERLAP_COEFFICIENT", case["threshold"], case.get("op", ">="))
        branches = set()
        for r in rows:
            lk, rk = r[1], r[2]
            if lk not in lpos or rk not in rpos:
                ctx.violation(site + ",kind=unknown-key",
                              "%s: output row names keys (%r, %r) that do not exist"
                              % (who, lk, rk))
                continue
            i, j = lpos[lk], rpos[rk]
            pos = 3
            for a in la:
                exp = canon.cv(lsrc[a][i])
                if r[pos] != exp:
                    ctx.violation(site + ",kind=wrong-projected-value",
                                  "%s: row (%r, %r) column %r holds %r, the left source row has "
                                  "%r (l_out_attrs=%r)" % (who, lk, rk, cols[pos], r[pos], exp,
                                                           case.get("l_out")))
                pos += 1
            for a in ra:
                exp = canon.cv(rsrc[a][j])
                if r[pos] != exp:
                    ctx.violation(site + ",kind=wrong-projected-value",
                                  "%s: row (%r, %r) column %r holds %r, the right source row "
                                  "has %r (r_out_attrs=%r)" % (who, lk, rk, cols[pos], r[pos],
                                                               exp, case.get("r_out")))
                pos += 1
            if P is not None:
                c = P.cat.get((lk, rk))
                branches.add("missing" if c == "missing" else
                             "empty" if c == "bothempty" else "normal")
            else:
                branches.add("normal")
        lt = [c["name"] for c in case["L"]["columns"]]
        rt = [c["name"] for c in case["R"]["columns"]]

        def reordered(attrs, table_order):
            idx = [table_order.index(a) for a in attrs]
            return len(attrs) >= 2 and idx != sorted(idx)

        ctx.nontrivial(len(rows) > 0 and (reordered(la, lt) or reordered(ra, rt)))
        ctx.label(site)
        for b in branches:
            ctx.label("branch=" + b)
        ctx.label("attrs=None", case.get("l_out") is None and case.get("r_out") is None)
        ctx.label("attrs-include-key", bool(case.get("l_out")) and case["L"]["key"] in
                  case["l_out"])
        ctx.label("attrs-include-join-attr", bool(case.get("l_out")) and case["L"]["attr"] in
                  case["l_out"])
        ctx.label("rows>0", len(rows) > 0)


@st.composite
def wide_case(draw, tier):
    from .c02 import large_case
    case = draw(large_case(tier))
    case["nl"] = min(case["nl"], 150)
    case["nr"] = min(case["nr"], 150)
    case["ncols"] = draw(st.integers(4, 14))
    case["perm_seed"] = draw(st.integers(0, 10 ** 6))
    case["nreq"] = draw(st.integers(1, 12))
    case["entry"] = draw(st.sampled_from(["join", "join", "size", "position", "overlap"]))
    case["score"] = draw(st.booleans())
    return case


class Wide(Component):
    """Wide tables (4-14 extra columns of mixed dtypes in shuffled order, 40-150 rows, 64-bit
    keys, non-default index) with long attribute requests in arbitrary order, duplicates
    included, on both sides."""
    name = "wide"
    kind = "hyp"
    rule = ">=2 requested attributes in non-table order on some side and >=1 output row"

    def examples(self, tier):
        return 20 if tier == "quick" else 300

    def strategy(self, tier):
        return wide_case(tier)

    def check(self, case, ctx):
        import random

        import pandas as pd
        from .c02 import large_tables
        L, R, lv, rv = large_tables(case["seed"], case["nl"], case["nr"], case["vocab"],
                                    case["maxtok"])
        rnd = random.Random(case["perm_seed"])

        def widen(T, side):
            n = len(T)
            cols = {}
            for c in range(case["ncols"]):
                kind = c % 5
                name = "%s_c%d" % (side, c)
                if kind == 0:
                    cols[name] = [2 ** 61 + 11 * i + c for i in range(n)]
                elif kind == 1:
                    cols[name] = [None if (i + c) % 6 == 0 else i * 0.25 for i in range(n)]
                elif kind == 2:
                    cols[name] = pd.Series([None if (i + c) % 5 == 0 else "s%d_%d" % (c, i % 9)
                                            for i in range(n)], dtype=object).values
                elif kind == 3:
                    cols[name] = [(i + c) % 2 == 0 for i in range(n)]
                else:
                    cols[name] = pd.to_datetime(["2001-01-%02d" % (1 + (i + c) % 28)
                                                 for i in range(n)])
            W = T.copy()
            idx = W.index
            W = W.reset_index(drop=True)
            for k, v in cols.items():
                W[k] = v
            order = list(W.columns)
            rnd.shuffle(order)
            W = W[order]
            W.index = idx
            return W

        L, R = widen(L, "l"), widen(R, "r")
        lreq = [rnd.choice(list(L.columns)) for _ in range(case["nreq"])]
        rreq = [rnd.choice(list(R.columns)) for _ in range(max(1, case["nreq"] // 2))]
        m = case["measure"]
        t = max(1, case["tgrid"] // 12) if m == "OVERLAP" else case["tgrid"] / 100.0
        nj = case["n_jobs"]
        tok = mk_tok({"kind": "ws", "return_set": True})
        e = case["entry"]
        with calls.backend(nj):
            if e == "join":
                if m == "OVERLAP":
                    df = ctx.lib(JOINS[m], L, R, "key", "key", "val", "val", tok, t, ">=",
                                 case["allow_missing"], lreq, rreq, "l_", "r_", case["score"],
                                 nj, False)
                else:
                    df = ctx.lib(JOINS[m], L, R, "key", "key", "val", "val", tok, t, ">=", True,
                                 case["allow_missing"], lreq, rreq, "l_", "r_", case["score"],
                                 nj, False)
                has_score = case["score"]
            else:
                mm = "JACCARD" if m in ("OVERLAP_COEFFICIENT",) else m
                if e == "overlap":
                    f = ssj.OverlapFilter(tok, 1, ">=", case["allow_missing"])
                    df = ctx.lib(f.filter_tables, L, R, "key", "key", "val", "val", lreq, rreq,
                                 "l_", "r_", case["score"], nj, False)
                    has_score = case["score"]
                else:
                    cls = ssj.SizeFilter if e == "size" else ssj.PositionFilter
                    f = cls(tok, mm, t if mm != "OVERLAP" else max(1, case["tgrid"] // 12), True,
                            case["allow_missing"])
                    df = ctx.lib(f.filter_tables, L, R, "key", "key", "val", "val", lreq, rreq,
                                 "l_", "r_", nj, False)
                    has_score = False
        if df is None:
            return
        la = c05.model_attrs(lreq, "key")
        ra = c05.model_attrs(rreq, "key")
        cols = ["_id", "l_key", "r_key"] + ["l_" + a for a in la] + ["r_" + a for a in ra] + \
            (["_sim_score"] if has_score else [])
        who = "%s (%s) on wide %dx%d tables, l_out_attrs=%r r_out_attrs=%r n_jobs=%d seed %d" % (
            e, m, len(L), len(R), lreq, rreq, nj, case["seed"])
        if [str(c) for c in df.columns] != cols:
            ctx.violation("entry=%s,kind=wrong-columns" % e, "%s: columns %r, expected %r"
                          % (who, list(df.columns), cols))
            return
        lsrc = dict((c, L[c].tolist()) for c in set(la))
        rsrc = dict((c, R[c].tolist()) for c in set(ra))
        lpos = dict((canon.cv(k), i) for i, k in enumerate(L["key"].tolist()))
        rpos = dict((canon.cv(k), i) for i, k in enumerate(R["key"].tolist()))
        rows = canon.rows_of(df)
        for r in rows:
            if r[1] not in lpos or r[2] not in rpos:
                ctx.violation("entry=%s,kind=unknown-key" % e, "%s: row names keys (%r, %r) that "
                              "do not exist" % (who, r[1], r[2]))
                continue
            i, j = lpos[r[1]], rpos[r[2]]
            pos = 3
            for a, src, ix in [(a, lsrc, i) for a in la] + [(a, rsrc, j) for a in ra]:
                exp = canon.cv(src[a][ix])
                if r[pos] != exp:
                    ctx.violation("entry=%s,kind=wrong-projected-value" % e,
                                  "%s: row (%r, %r) column %r holds %r, the source row has %r"
                                  % (who, r[1], r[2], cols[pos], r[pos], exp))
                pos += 1
        ctx.nontrivial(len(rows) > 0 and (len(la) >= 2 or len(ra) >= 2))
        ctx.label("wide:" + e)


class SelfJoin(Projection):
    """Every case passes the very same DataFrame object as left and right table; half of them
    request the same attributes on both sides in a different order."""
    name = "selfjoin"

    def examples(self, tier):
        return 300 if tier == "quick" else 1000

    def strategy(self, tier):
        return projection_case(tier, self_join=True)


COMPONENTS = [Projection(), Wide(), SelfJoin()]
