"""C05 -- apply_matcher keeps exactly the candidate rows that satisfy the predicate."""
from hypothesis import strategies as st

from .. import calls, canon, gen, oracle, simfns
from ..env import mk_tok, ssj
from ..runner import Component

PROPERTY = "C05"
RULE = ("G-TABLE + G-CANDSET x similarity function (bound methods, module function, lambda, "
        "partial) x six operators x thresholds on/around achieved scores x allow_missing x "
        "output attributes x n_jobs (threading backend; a share on real loky workers) x both "
        "token-cache regimes + padding metamorphic variant; non-trivial = >=1 row kept and >=1 "
        "row dropped; distinct = case digests")
ASSUMPTIONS = ["the similarity function itself is the specification of the score (called by the "
               "model on freshly tokenized values)",
               "py_stringmatching tokenizers are deterministic"]

OPS6 = [">=", ">", "<=", "<", "=", "!="]


def model_attrs(out, key):
    if out is None:
        return None
    res = []
    for a in out:
        if a == key or a in res:
            continue
        res.append(a)
    return res


@st.composite
def matcher_case(draw, tier, self_join=None):
    tokcfg = draw(gen.tokenizer_cfg())
    L, R = draw(gen.two_tables(tokcfg, tier, missing=draw(st.sampled_from(
        ["none", "none", "left", "right", "both"])), min_rows=0, self_join=self_join))
    use_tok = draw(st.integers(0, 3)) > 0
    fn = draw(st.sampled_from(simfns.TOKEN_FNS if use_tok else simfns.STRING_FNS))
    cs = draw(gen.candset(L, R))
    # threshold on / around an achieved score
    thr = None
    lv = dict(zip(canon.table_column(L, L["key"])["values"],
                  canon.table_column(L, L["attr"])["values"]))
    rv = dict(zip(canon.table_column(R, R["key"])["values"],
                  canon.table_column(R, R["attr"])["values"]))
    if cs["l"] and draw(st.integers(0, 4)) > 0:
        i = draw(st.integers(0, len(cs["l"]) - 1))
        a, b = lv[cs["l"][i]], rv[cs["r"][i]]
        if not oracle.is_missing(a) and not oracle.is_missing(b):
            f = simfns.get(fn)
            if use_tok:
                t = mk_tok(tokcfg)
                s = f(t.tokenize(a), t.tokenize(b))
            else:
                s = f(a, b)
            thr = draw(st.sampled_from([s, s, s + 1e-9, s - 1e-9, s + 0.5, s - 0.5]))
    if thr is None:
        thr = draw(st.sampled_from([0, 0.5, 1, 2, 0.3333, 0.75, -0.5]))
    n_jobs = draw(st.sampled_from([1, 1, 1, 2, 3, 7, 11, 12, 14, max(len(cs["l"]), 1),
                                    len(cs["l"]) + 2, -1]))
    case = {"tok": tokcfg if use_tok else None, "fn": fn, "L": L, "R": R, "candset": cs,
            "threshold": thr, "op": draw(st.sampled_from(OPS6)),
            "allow_missing": draw(st.booleans()),
            "l_out": draw(gen.out_attrs(L)), "r_out": draw(gen.out_attrs(R)),
            "prefix": draw(st.sampled_from(gen.PREFIXES)),
            "out_sim_score": draw(st.booleans()), "n_jobs": n_jobs,
            "real": n_jobs in (2, 3) and draw(st.integers(0, 11)) == 0,
            "show_progress": draw(st.integers(0, 3)) == 0,
            "pad": draw(st.integers(0, 2))}
    return case


def run_matcher(ctx, case, C, L, R, tok, fn, n_jobs=None, real=False):
    cs = case["candset"]
    nj = case["n_jobs"] if n_jobs is None else n_jobs
    with calls.backend(nj, real):
        return ctx.lib(ssj.apply_matcher, C, cs["names"][0], cs["names"][1], L, R,
                       case["L"]["key"], case["R"]["key"], case["L"]["attr"], case["R"]["attr"],
                       tok, fn, case["threshold"], case["op"], case["allow_missing"],
                       case["l_out"], case["r_out"], case["prefix"][0], case["prefix"][1],
                       case["out_sim_score"], nj, bool(case.get("show_progress", False)))


def model(case, L, R):
    """expected (header, rows) -- row-wise, in candidate order"""
    cs = case["candset"]
    Lr, Rr = case["L"], case["R"]
    lcols = dict((c["name"], L[c["name"]].tolist()) for c in Lr["columns"])
    rcols = dict((c["name"], R[c["name"]].tolist()) for c in Rr["columns"])
    lpos = dict((canon.cv(k), i) for i, k in enumerate(lcols[Lr["key"]]))
    rpos = dict((canon.cv(k), i) for i, k in enumerate(rcols[Rr["key"]]))
    la = model_attrs(case["l_out"], Lr["key"])
    ra = model_attrs(case["r_out"], Rr["key"])
    header = ["_id", case["prefix"][0] + Lr["key"], case["prefix"][1] + Rr["key"]]
    header += [case["prefix"][0] + a for a in (la or [])]
    header += [case["prefix"][1] + a for a in (ra or [])]
    if case["out_sim_score"]:
        header.append("_sim_score")
    f = simfns.get(case["fn"])
    tok = mk_tok(case["tok"]) if case["tok"] else None
    op = oracle.OPS[case["op"]]
    rows = []
    kept = dropped = 0
    for cid, lk, rk in zip(cs["ids"], cs["l"], cs["r"]):
        i, j = lpos[canon.cv(lk)], rpos[canon.cv(rk)]
        a, b = lcols[Lr["attr"]][i], rcols[Rr["attr"]][j]
        if oracle.is_missing(a) or oracle.is_missing(b):
            if not case["allow_missing"]:
                dropped += 1
                continue
            score = float("nan")
        else:
            if tok is not None:
                score = f(tok.tokenize(a), tok.tokenize(b))
            else:
                score = f(a, b)
            if not op(score, case["threshold"]):
                dropped += 1
                continue
        kept += 1
        row = [cid, lk, rk]
        row += [lcols[x][i] for x in (la or [])]
        row += [rcols[x][j] for x in (ra or [])]
        if case["out_sim_score"]:
            row.append(score)
        rows.append(tuple(canon.cv(v) for v in row))
    return header, rows, kept, dropped


def pad_table(T, k):
    """append k rows that no candidate references"""
    if k == 0:
        return T
    T2 = {"columns": [], "index": None, "key": T["key"], "attr": T["attr"]}
    n = canon.table_len(T)
    for c in T["columns"]:
        vals = list(c["values"])
        if c["name"] == T["key"]:
            add = [1000 + i for i in range(k)] if c["kind"] == "int" else \
                ["pad%d" % i for i in range(k)]
        elif c["name"] == T["attr"]:
            add = ["pad a b"] * k
        else:
            filler = {"int": 0, "float": 0.5, "bool": False, "obj": "p", "strdtype": "p",
                      "nastring": "p",
                      "datetime": "2001-01-01"}[c["kind"]]
            add = [filler] * k
        T2["columns"].append({"name": c["name"], "kind": c["kind"], "values": vals + add})
    T2["index"] = list(range(n + k))
    return T2


class Random(Component):
    name = "random"
    kind = "hyp"
    rule = ">=1 row kept and >=1 row dropped"

    def examples(self, tier):
        return 400 if tier == "quick" else 1500

    def strategy(self, tier):
        return matcher_case(tier)

    def check(self, case, ctx):
        L, R = canon.build_pair(case)
        C = gen.build_candset(case["candset"])
        tok = mk_tok(case["tok"]) if case["tok"] else None
        fn = simfns.get(case["fn"])
        before = [canon.snapshot(C), canon.snapshot(L), canon.snapshot(R)]
        out = run_matcher(ctx, case, C, L, R, tok, fn, real=case.get("real", False))
        if out is None:
            return
        if [canon.snapshot(C), canon.snapshot(L), canon.snapshot(R)] != before:
            ctx.violation("fn=apply_matcher,kind=input-modified",
                          "apply_matcher n_jobs=%r modified its candidate set or tables "
                          "(candset index now %r)" % (case["n_jobs"], C.index.tolist()[:8]))
        header, rows, kept, dropped = model(case, L, R)
        cached = tok is not None and (len(L) + len(R) < 2 * len(C))
        self.compare(ctx, case, out, header, rows, len(C),
                     "n_jobs=%r cached=%s" % (case["n_jobs"], cached))
        # metamorphic: pad the tables with unreferenced rows (cache switch may flip)
        if case["pad"] and len(C) > 0:
            k = case["pad"] * max(1, len(C))
            L2 = canon.build_table(pad_table(case["L"], k))
            R2 = canon.build_table(pad_table(case["R"], k))
            out2 = run_matcher(ctx, case, C, L2, R2, tok, fn, n_jobs=1)
            if out2 is not None:
                self.compare(ctx, case, out2, header, rows, len(C), "padded tables (+%d rows)" % k)
            ctx.label("cache-flipped-by-padding", cached)
        ctx.nontrivial(kept > 0 and dropped > 0)
        ctx.label("cached" if cached else "uncached")
        ctx.label("op=" + case["op"])
        ctx.label("fn=" + case["fn"])
        ctx.label("tokenizer=None", tok is None)
        ctx.label("n_jobs>1", case["n_jobs"] != 1)
        ctx.label("real-loky", case.get("real", False))
        ctx.label("allow_missing", case["allow_missing"])
        ctx.label("empty-candset", len(C) == 0)

    def compare(self, ctx, case, out, header, rows, ncand, what):
        if ncand == 0:
            if len(out) != 0:
                ctx.violation("fn=apply_matcher,kind=rows-from-empty-candset",
                              "empty candidate set produced %d rows" % len(out))
            return
        if list(out.columns) != header:
            ctx.violation("fn=apply_matcher,kind=wrong-columns",
                          "%s: columns %r, expected %r" % (what, list(out.columns), header))
        got = canon.rows_of(out)
        if got != rows:
            ctx.violation("fn=apply_matcher,kind=wrong-rows",
                          "%s: op %s threshold %r fn %s: got rows %r, expected %r"
                          % (what, case["op"], case["threshold"], case["fn"], got[:6], rows[:6]))


@st.composite
def large_matcher_case(draw, tier):
    from .c02 import large_case
    case = draw(large_case(tier))
    case["cand_rows"] = draw(st.integers(50, 3000 if tier == "thorough" else 900))
    case["index_kind"] = draw(st.sampled_from(["range", "gaps", "dup", "str"]))
    case["use_tok"] = draw(st.integers(0, 3)) > 0
    case["fn"] = draw(st.sampled_from(simfns.TOKEN_FNS if case["use_tok"] else
                                      ["lev", "common_count", "lambda", "partial"]))
    case["op6"] = draw(st.sampled_from(OPS6))
    case["bag"] = draw(st.booleans())
    case["score"] = draw(st.booleans())
    case["pick"] = draw(st.integers(0, 10 ** 6))
    return case


class LargeMatcher(Component):
    """apply_matcher on candidate sets of 50-3000 rows over the larger synthetic tables (both
    cache regimes, n_jobs up to 24, non-default candset index) against the row-wise model."""
    name = "large"
    kind = "hyp"
    rule = ">=1 row kept and >=1 row dropped"

    def examples(self, tier):
        return 20 if tier == "quick" else 300

    def strategy(self, tier):
        return large_matcher_case(tier)

    def check(self, case, ctx):
        import random

        import pandas as pd
        from .c02 import large_tables
        L, R, lv, rv = large_tables(case["seed"], case["nl"], case["nr"], case["vocab"],
                                    case["maxtok"])
        rnd = random.Random(case["seed"] + 2)
        n = case["cand_rows"]
        li = [rnd.randrange(case["nl"]) for _ in range(n)]
        ri = [rnd.randrange(case["nr"]) for _ in range(n)]
        lk, rk = L["key"].tolist(), R["key"].tolist()
        ids = [7 * i + 3 for i in range(n)]
        C = pd.DataFrame({"_id": ids, "lk": [lk[i] for i in li], "rk": [rk[j] for j in ri]})
        C.index = pd.Index({"range": list(range(n)), "gaps": [3 * i + 1 for i in range(n)],
                            "dup": [i // 3 for i in range(n)],
                            "str": ["c%d" % i for i in range(n)]}[case["index_kind"]])
        tokcfg = {"kind": "ws", "return_set": not case["bag"]}
        tok = mk_tok(tokcfg) if case["use_tok"] else None
        mtok = mk_tok(tokcfg) if case["use_tok"] else None
        fn = simfns.get(case["fn"])

        def score(i, j):
            a, b = lv[i], rv[j]
            if a is None or b is None:
                return None
            if mtok is not None:
                return fn(mtok.tokenize(a), mtok.tokenize(b))
            return fn(a, b)

        thr = None
        for probe in range(20):
            k = (case["pick"] + probe) % n
            sc = score(li[k], ri[k])
            if sc is not None:
                thr = sc
                break
        if thr is None:
            thr = 0.5
        op = oracle.OPS[case["op6"]]
        am, nj = case["allow_missing"], case["n_jobs"]
        la = ["extra"] if case["attrs"] else None
        before = canon.snapshot(C)
        with calls.backend(nj):
            out = ctx.lib(ssj.apply_matcher, C, "lk", "rk", L, R, "key", "key", "val", "val", tok,
                          fn, thr, case["op6"], am, la, None, "l_", "r_", case["score"], nj,
                          False)
        if out is None:
            return
        extra = L["extra"].tolist()
        exp = []
        memo = {}
        for cid, i, j in zip(ids, li, ri):
            if (i, j) not in memo:
                memo[(i, j)] = score(i, j)
            sc = memo[(i, j)]
            if sc is None:
                if not am:
                    continue
                sc = float("nan")
            elif not op(sc, thr):
                continue
            row = [cid, lk[i], rk[j]] + ([extra[i]] if la else []) + \
                ([sc] if case["score"] else [])
            exp.append(tuple(canon.cv(v) for v in row))
        got = canon.rows_of(out) if len(out) else []
        who = "apply_matcher(%s, op %s, threshold %r, n_jobs=%r) on %d candidate rows (seed %d)" \
            % (case["fn"], case["op6"], thr, nj, n, case["seed"])
        if got != exp:
            gs, es = set(got), set(exp)
            ctx.violation("fn=apply_matcher,kind=wrong-rows",
                          "%s: %d rows returned, %d expected; only returned %r, only expected %r"
                          % (who, len(got), len(exp), sorted(gs - es, key=repr)[:3],
                             sorted(es - gs, key=repr)[:3]))
        if canon.snapshot(C) != before:
            ctx.violation("fn=apply_matcher,kind=input-modified",
                          "%s modified its candidate set" % who)
        ctx.nontrivial(0 < len(exp) < n)
        ctx.label("large:cached" if (tok is not None and len(L) + len(R) < 2 * n)
                  else "large:uncached")
        ctx.label("large:fn=" + case["fn"])


class SelfJoin(Random):
    """Candidate sets over a table paired with itself: the very same DataFrame object as
    ltable and rtable, matching one column against itself or against a second string column."""
    name = "selfjoin"

    def examples(self, tier):
        return 300 if tier == "quick" else 1000

    def strategy(self, tier):
        return matcher_case(tier, self_join=True)


COMPONENTS = [Random(), LargeMatcher(), SelfJoin()]
