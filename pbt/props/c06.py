"""C06 -- filter_candset is row-wise filter_pair; OverlapFilter is exact."""
from hypothesis import strategies as st

from .. import calls, canon, gen, oracle
from ..env import mk_tok
from ..runner import Component
from . import c04

PROPERTY = "C06"
RULE = ("(a) all five filters x drawn parameters x G-CANDSET x n_jobs: filter_candset result "
        "equals the candidate rows filter_pair does not drop (columns, order, index labels, "
        "values); non-trivial = >=1 row kept and >=1 dropped. (b) OverlapFilter vs the reference "
        "model for >=,>,=: filter_pair on all row pairs, filter_tables pairs and _sim_score; "
        "non-trivial = a pair on each side of the predicate; distinct = case digests")
ASSUMPTIONS = ["filter_pair is the specification of filter_candset (separate code path)",
               "py_stringmatching tokenizers are correct"]


@st.composite
def candset_case(draw, tier):
    if draw(st.integers(0, 3)) == 0:
        case = draw(c04.ed_filter_case(tier))
    else:
        case = draw(c04.set_filter_case(tier))
    case["op"] = draw(st.sampled_from([">=", ">", "="])) if case["ftype"] == "overlap" else ">="
    case["cand_n_jobs"] = draw(st.sampled_from([1, 1, 2, 3, max(1, len(case["candset"]["l"])),
                                                len(case["candset"]["l"]) + 2, -1]))
    return case


class Candset(Component):
    name = "candset"
    kind = "hyp"
    rule = ">=1 candidate row kept and >=1 dropped"

    def examples(self, tier):
        return 400 if tier == "quick" else 1500

    def strategy(self, tier):
        return candset_case(tier)

    def check(self, case, ctx):
        L, R = canon.build_pair(case)
        fcfg = c04.fcfg_of(case)
        fcfg["op"] = case.get("op", ">=")
        f = calls.make_filter(ctx, fcfg, mk_tok(case["tok"]))
        if f is None:
            return
        cs = case["candset"]
        C = gen.build_candset(cs)
        before = canon.snapshot(C)
        out = calls.run_filter_candset(ctx, f, case, C, cs["names"], L, R, case["cand_n_jobs"])
        if out is None:
            return
        lv = dict(zip([canon.cv(k) for k in calls.lkeys(case)], calls.lvals(case)))
        rv = dict(zip([canon.cv(k) for k in calls.rkeys(case)], calls.rvals(case)))
        mask = []
        for a, b in zip(cs["l"], cs["r"]):
            # the specification: a filter object of its own for every row, so that the verdict
            # is a function of the value pair alone
            g = calls.make_filter(ctx, fcfg, mk_tok(case["tok"]))
            mask.append(not ctx.lib(g.filter_pair, lv[canon.cv(a)], rv[canon.cv(b)]))
        exp = C.iloc[[i for i, keep in enumerate(mask) if keep]]
        desc = "%s(%s, %r, op=%s).filter_candset n_jobs=%r" % (
            c04.CLS[case["ftype"]], case["measure"], case["threshold"], fcfg["op"],
            case["cand_n_jobs"])
        if list(out.columns) != list(exp.columns):
            ctx.violation("filter=%s,kind=candset-columns" % c04.CLS[case["ftype"]],
                          "%s: columns %r, expected %r" % (desc, list(out.columns),
                                                           list(exp.columns)))
        if [canon.cv(i) for i in out.index.tolist()] != [canon.cv(i) for i in exp.index.tolist()]:
            ctx.violation("filter=%s,kind=candset-index" % c04.CLS[case["ftype"]],
                          "%s: index labels %r, expected %r (mask %r)"
                          % (desc, out.index.tolist(), exp.index.tolist(), mask))
        if canon.rows_of(out) != canon.rows_of(exp):
            ctx.violation("filter=%s,kind=candset-rows" % c04.CLS[case["ftype"]],
                          "%s: rows %r, expected %r" % (desc, canon.rows_of(out)[:6],
                                                        canon.rows_of(exp)[:6]))
        if canon.snapshot(C) != before:
            ctx.violation("filter=%s,kind=candset-mutated" % c04.CLS[case["ftype"]],
                          "%s modified its candidate set" % desc)
        ctx.nontrivial(any(mask) and not all(mask))
        ctx.label("filter=" + case["ftype"])
        ctx.label("measure=" + case["measure"])
        ctx.label("n_jobs>1", case["cand_n_jobs"] != 1)
        ctx.label("empty-candset", len(C) == 0)
        ctx.label("has-missing-rows", any(oracle.is_missing(lv[canon.cv(a)]) or
                                          oracle.is_missing(rv[canon.cv(b)])
                                          for a, b in zip(cs["l"], cs["r"])))


@st.composite
def overlap_case(draw, tier):
    tokcfg = draw(gen.tokenizer_cfg(return_set=True))
    L, R = draw(gen.two_tables(tokcfg, tier, p_empty=2))
    lv = canon.table_column(L, L["attr"])["values"]
    rv = canon.table_column(R, R["attr"])["values"]
    case = {"tok": tokcfg, "L": L, "R": R, "measure": "OVERLAP", "ftype": "overlap",
            "threshold": draw(gen.overlap_threshold(tokcfg, lv, rv, fractional=True)),
            "op": draw(st.sampled_from([">=", ">", "="])),
            "allow_missing": draw(st.booleans())}
    case.update(draw(gen.common_config(L, R)))
    return case


class OverlapExact(Component):
    name = "overlap-exact"
    kind = "hyp"
    rule = "a token-sharing pair on each side of the predicate"

    def examples(self, tier):
        return 400 if tier == "quick" else 1500

    def strategy(self, tier):
        return overlap_case(tier)

    def check(self, case, ctx):
        L, R = canon.build_pair(case)
        f = calls.make_filter(ctx, {"type": "overlap", "threshold": case["threshold"],
                                    "op": case["op"], "allow_missing": case["allow_missing"]},
                              mk_tok(case["tok"]))
        if f is None:
            return
        P = calls.Pairs(case, "OVERLAP", case["threshold"], case["op"])
        lv, rv = calls.lvals(case), calls.rvals(case)
        op = oracle.OPS[case["op"]]
        t = case["threshold"]
        desc = "OverlapFilter(%r, %s)" % (t, case["op"])
        want = {}
        yes = no = 0
        for i, a in enumerate(lv):
            for j, b in enumerate(rv):
                k = (P.lk[i], P.rk[j])
                s = P.stats[k]
                if s is None:
                    continue
                # "both strings non-empty" is read as "both have tokens": the two readings
                # differ only for '' under a padded q-gram tokenizer, where C01/C04 require
                # the token-based one (DESIGN 5.3)
                keep = s[0] > 0 and s[1] > 0 and bool(op(s[2], t))
                if keep:
                    want[k] = s[2]
                    yes += 1
                elif s[2] > 0:
                    no += 1
                r = ctx.lib(f.filter_pair, a, b)
                if r is not None and bool(r) != (not keep):
                    ctx.violation("filter=OverlapFilter,kind=filter_pair-inexact",
                                  "%s.filter_pair(%r, %r) returned %r; overlap %d"
                                  % (desc, a, b, r, s[2]))
        # filter_pair with the same tokenizer in bag mode: the overlap is that of the token
        # *sets* ("input lists are converted to sets"), also for identical strings and
        # strings with repeated tokens
        fb = calls.make_filter(ctx, {"type": "overlap", "threshold": case["threshold"],
                                     "op": case["op"], "allow_missing": case["allow_missing"]},
                               mk_tok(dict(case["tok"], return_set=False)))
        if fb is not None:
            stok = oracle.Tok(case["tok"], True)
            present = [v for v in lv + rv if not oracle.is_missing(v)]
            pairs = [(a, b) for a in lv for b in rv] + [(a, a) for a in present]
            for a, b in pairs:
                if oracle.is_missing(a) or oracle.is_missing(b):
                    continue
                x, y = set(stok(a)), set(stok(b))
                keep = len(x) > 0 and len(y) > 0 and bool(op(len(x & y), t))
                r = ctx.lib(fb.filter_pair, a, b)
                if r is not None and bool(r) != (not keep):
                    ctx.violation("filter=OverlapFilter,kind=filter_pair-inexact",
                                  "%s.filter_pair(%r, %r) with the tokenizer in bag mode returned "
                                  "%r; the token sets share %d tokens"
                                  % (desc, a, b, r, len(x & y)))
        df = ctx.lib(f.filter_tables, L, R, case["L"]["key"], case["R"]["key"],
                     case["L"]["attr"], case["R"]["attr"], case["l_out"], case["r_out"],
                     case["prefix"][0], case["prefix"][1], case["out_sim_score"], 1, False)
        if df is not None:
            got, order = calls.key_pairs(df, case)
            scores = df["_sim_score"].tolist() if case["out_sim_score"] else None
            for pos, k in enumerate(order):
                if P.cat.get(k) == "missing":
                    continue
                if k not in want:
                    ctx.violation("filter=OverlapFilter,kind=filter_tables-extra-pair",
                                  "%s.filter_tables lists %r with sizes/overlap %r"
                                  % (desc, k, P.stats.get(k)))
                elif got[k] > 1:
                    ctx.violation("filter=OverlapFilter,kind=filter_tables-duplicate",
                                  "%s.filter_tables lists %r %d times" % (desc, k, got[k]))
                elif scores is not None and canon.cv(scores[pos]) != want[k]:
                    ctx.violation("filter=OverlapFilter,kind=filter_tables-score",
                                  "%s.filter_tables: pair %r _sim_score %r, overlap %d"
                                  % (desc, k, scores[pos], want[k]))
            for k in want:
                if got[k] == 0:
                    ctx.violation("filter=OverlapFilter,kind=filter_tables-missing-pair",
                                  "%s.filter_tables does not list %r with overlap %d"
                                  % (desc, k, want[k]))
        ctx.nontrivial(yes > 0 and no > 0)
        ctx.label("op=" + case["op"])
        ctx.label("score", case["out_sim_score"])


@st.composite
def large_candset_case(draw, tier):
    from .c02 import large_case
    case = draw(large_case(tier))
    case["ftype"] = draw(st.sampled_from(["size", "prefix", "position", "suffix", "overlap"]))
    if case["ftype"] == "overlap":
        case["measure"] = "OVERLAP"
    elif case["measure"] == "OVERLAP_COEFFICIENT":
        case["measure"] = "COSINE"
    case["cand_rows"] = draw(st.integers(50, 3000 if tier == "thorough" else 900))
    case["index_kind"] = draw(st.sampled_from(["range", "gaps", "dup", "str"]))
    return case


class LargeCandset(Component):
    """Candidate sets of 50-3000 rows over the larger synthetic tables, non-default index
    labels, n_jobs up to 24: filter_candset equals the row-wise filter_pair mask."""
    name = "large"
    kind = "hyp"
    rule = ">=1 candidate row kept and >=1 dropped"

    def examples(self, tier):
        return 20 if tier == "quick" else 300

    def strategy(self, tier):
        return large_candset_case(tier)

    def check(self, case, ctx):
        import random

        import pandas as pd
        from .c02 import large_tables
        L, R, lv, rv = large_tables(case["seed"], case["nl"], case["nr"], case["vocab"],
                                    case["maxtok"])
        rnd = random.Random(case["seed"] + 1)
        n = case["cand_rows"]
        li = [rnd.randrange(case["nl"]) for _ in range(n)]
        ri = [rnd.randrange(case["nr"]) for _ in range(n)]
        lk, rk = L["key"].tolist(), R["key"].tolist()
        C = pd.DataFrame({"_id": list(range(5, 5 + n)), "lk": [lk[i] for i in li],
                          "rk": [rk[j] for j in ri],
                          "w": [0.5 * (i % 3) for i in range(n)]})
        C.index = pd.Index({"range": list(range(n)), "gaps": [3 * i + 1 for i in range(n)],
                            "dup": [i // 3 for i in range(n)],
                            "str": ["c%d" % i for i in range(n)]}[case["index_kind"]])
        ft, m = case["ftype"], case["measure"]
        t = max(1, case["tgrid"] // 12) if m == "OVERLAP" else case["tgrid"] / 100.0
        fcfg = {"type": ft, "measure": m, "threshold": t, "allow_missing": case["allow_missing"]}
        f = calls.make_filter(ctx, fcfg, mk_tok({"kind": "ws", "return_set": True}))
        if f is None:
            return
        before = canon.snapshot(C)
        nj = case["n_jobs"]
        with calls.backend(nj):
            out = ctx.lib(f.filter_candset, C, "lk", "rk", L, R, "key", "key", "val", "val",
                          n_jobs=nj, show_progress=False)
        if out is None:
            return
        memo = {}
        mask = []
        for i, j in zip(li, ri):
            k = (i, j)
            if k not in memo:
                g = calls.make_filter(ctx, fcfg, mk_tok({"kind": "ws", "return_set": True}))
                memo[k] = not ctx.lib(g.filter_pair, lv[i], rv[j])
            mask.append(memo[k])
        exp = C.iloc[[i for i, keep in enumerate(mask) if keep]]
        desc = "%s(%s, %r).filter_candset n_jobs=%r on %d candidate rows (index %s, seed %d)" % (
            c04.CLS[ft], m, t, nj, n, case["index_kind"], case["seed"])
        if list(out.columns) != list(exp.columns):
            ctx.violation("filter=%s,kind=candset-columns" % c04.CLS[ft], "%s: columns %r"
                          % (desc, list(out.columns)))
        if [canon.cv(i) for i in out.index.tolist()] != [canon.cv(i) for i in exp.index.tolist()]:
            ctx.violation("filter=%s,kind=candset-index" % c04.CLS[ft],
                          "%s: %d index labels returned, %d expected; first labels %r vs %r"
                          % (desc, len(out), len(exp), out.index.tolist()[:6],
                             exp.index.tolist()[:6]))
        if canon.rows_of(out) != canon.rows_of(exp):
            ctx.violation("filter=%s,kind=candset-rows" % c04.CLS[ft],
                          "%s: rows differ from the filter_pair mask" % desc)
        if canon.snapshot(C) != before:
            ctx.violation("filter=%s,kind=candset-mutated" % c04.CLS[ft],
                          "%s modified its candidate set" % desc)
        ctx.nontrivial(any(mask) and not all(mask))
        ctx.label("large:" + ft)


COMPONENTS = [Candset(), OverlapExact(), LargeCandset()]
