"""C04 -- filters never dismiss a pair that satisfies the threshold."""
from hypothesis import strategies as st

from .. import calls, canon, enumgen, gen, oracle
from ..env import mk_tok
from ..runner import Component
from .c03 import e3_table

PROPERTY = "C04"
RULE = ("random: every filter type x measure on G-TABLE / G-STRINGS cases observed through "
        "filter_pair (all row pairs), filter_tables and filter_candset; non-trivial = a pair "
        "in 'must' and a pair the filter drops; E1/E2: size triples / arrangements through "
        "filter_tables (and filter_pair for E1); E3: all short-string pairs for EDIT_DISTANCE; "
        "'dense': all-subsets tables per filter/measure/threshold/n_jobs; distinct = case digests")
ASSUMPTIONS = ["py_stringmatching tokenizers are correct; set-mode tokenizers for set measures, "
               "bag-mode q-gram tokenizers for EDIT_DISTANCE (as C04 states)",
               "edit-distance thresholds passed to filters are Python ints"]

CLS = {"size": "SizeFilter", "prefix": "PrefixFilter", "position": "PositionFilter",
       "suffix": "SuffixFilter", "overlap": "OverlapFilter"}
SET_FILTER_MEASURES = ["JACCARD", "COSINE", "DICE", "OVERLAP"]


def drop_sig(ftype):
    return "filter=%s,kind=qualifying-pair-dropped,tokens=both-nonempty" % CLS[ftype]


@st.composite
def set_filter_case(draw, tier, ftypes=("size", "prefix", "position", "suffix", "overlap"),
                    p_empty=1, missing=None, self_join=None):
    ftype = draw(st.sampled_from(list(ftypes)))
    measure = "OVERLAP" if ftype == "overlap" else draw(st.sampled_from(SET_FILTER_MEASURES))
    tokcfg = draw(gen.tokenizer_cfg(return_set=True))
    L, R = draw(gen.two_tables(tokcfg, tier, p_empty=p_empty, missing=missing,
                               self_join=self_join))
    lv = canon.table_column(L, L["attr"])["values"]
    rv = canon.table_column(R, R["attr"])["values"]
    if measure == "OVERLAP":
        thr = draw(gen.overlap_threshold(tokcfg, lv, rv))
    else:
        thr = draw(gen.sim_threshold(measure, tokcfg, lv, rv))
    case = {"ftype": ftype, "measure": measure, "tok": tokcfg, "L": L, "R": R,
            "threshold": thr, "allow_empty": draw(st.booleans()),
            "allow_missing": draw(st.booleans()),
            "candset": draw(gen.candset(L, R)),
            "cand_n_jobs": draw(st.sampled_from([1, 1, 2, 3]))}
    case.update(draw(gen.common_config(L, R, score=False)))
    return case


@st.composite
def ed_filter_case(draw, tier, ftypes=("size", "prefix", "position", "suffix"), missing=None,
                   self_join=None):
    ftype = draw(st.sampled_from(list(ftypes)))
    L, R = draw(gen.ed_tables(tier, missing, self_join=self_join))
    tokcfg = {"kind": "qgram", "q": draw(st.integers(1, 4)), "padding": draw(st.booleans()),
              "return_set": False}
    case = {"ftype": ftype, "measure": "EDIT_DISTANCE", "tok": tokcfg, "L": L, "R": R,
            "threshold": draw(st.integers(0, 4)), "allow_empty": draw(st.booleans()),
            "allow_missing": draw(st.booleans()),
            "candset": draw(gen.candset(L, R)),
            "cand_n_jobs": draw(st.sampled_from([1, 1, 2, 3]))}
    case.update(draw(gen.common_config(L, R, score=False)))
    return case


def fcfg_of(case):
    return {"type": case["ftype"], "measure": case["measure"], "threshold": case["threshold"],
            "allow_empty": case.get("allow_empty", True),
            "allow_missing": case.get("allow_missing", False), "op": ">="}


def must_pairs(case):
    """{(lkey, rkey): description} of present pairs the filter is required to keep."""
    lv, rv = calls.lvals(case), calls.rvals(case)
    lk = [canon.cv(k) for k in calls.lkeys(case)]
    rk = [canon.cv(k) for k in calls.rkeys(case)]
    must = {}
    sharing_other = 0
    if case["measure"] == "EDIT_DISTANCE":
        tok = oracle.Tok(case["tok"], False)
        t = case["threshold"]
        for i, a in enumerate(lv):
            for j, b in enumerate(rv):
                if oracle.is_missing(a) or oracle.is_missing(b):
                    continue
                share = oracle.shares_qgram(tok(a), tok(b))
                d = oracle.levenshtein(a, b)
                if d <= t and share:
                    must[(lk[i], rk[j])] = (i, j, "distance %d" % d)
                elif share:
                    sharing_other += 1
        return must, sharing_other
    P = calls.Pairs(case, case["measure"], case["threshold"], ">=")
    for i in range(len(lv)):
        for j in range(len(rv)):
            k = (lk[i], rk[j])
            if P.cat[k] == "must":
                must[k] = (i, j, "sizes/overlap %r" % (P.stats[k],))
            elif P.cat[k] == "no" and P.stats[k][2] > 0:
                sharing_other += 1
    return must, sharing_other


def check_filter_case(case, ctx, points=("pair", "tables", "candset")):
    L, R = canon.build_pair(case)
    tok = mk_tok(case["tok"])
    f = calls.make_filter(ctx, fcfg_of(case), tok)
    if f is None:
        return
    ftype = case["ftype"]
    lv, rv = calls.lvals(case), calls.rvals(case)
    must, sharing_other = must_pairs(case)
    desc = "%s(%s, %r)" % (CLS[ftype], case["measure"], case["threshold"])
    dropped_any = False
    if "pair" in points:
        for k, (i, j, why) in must.items():
            r = ctx.lib(f.filter_pair, lv[i], rv[j])
            if r:
                ctx.violation(drop_sig(ftype),
                              "%s.filter_pair(%r, %r) drops a qualifying pair (%s)"
                              % (desc, lv[i], rv[j], why))
    if "tables" in points:
        df = calls.run_filter_tables(ctx, f, case, L, R)
        if df is not None:
            got, _ = calls.key_pairs(df, case)
            npresent = sum(1 for a in lv if not oracle.is_missing(a)) * \
                sum(1 for b in rv if not oracle.is_missing(b))
            dropped_any = sum(1 for k in got) < npresent or dropped_any
            for k, (i, j, why) in must.items():
                if got[k] == 0:
                    ctx.violation(drop_sig(ftype),
                                  "%s.filter_tables does not list qualifying pair %r (%r, %r; "
                                  "%s)" % (desc, k, lv[i], rv[j], why))
    if "candset" in points:
        cs = case["candset"]
        C = gen.build_candset(cs)
        out = calls.run_filter_candset(ctx, f, case, C, cs["names"], L, R, case["cand_n_jobs"])
        if out is not None:
            kept = set(zip(canon.col_values(out, cs["names"][0]),
                           canon.col_values(out, cs["names"][1])))
            for a, b in zip(cs["l"], cs["r"]):
                k = (canon.cv(a), canon.cv(b))
                if k in must and k not in kept:
                    i, j, why = must[k]
                    ctx.violation(drop_sig(ftype),
                                  "%s.filter_candset drops the row of qualifying pair %r (%r, %r;"
                                  " %s)" % (desc, k, lv[i], rv[j], why))
            if len(out) < len(C):
                dropped_any = True
    ctx.nontrivial(bool(must) and dropped_any)
    ctx.label("filter=" + ftype)
    ctx.label("measure=" + case["measure"])
    ctx.label("has-must", bool(must))
    ctx.label("filter-drops-something", dropped_any)
    ctx.label("n_jobs>1", case.get("n_jobs", 1) != 1)


class RandomSet(Component):
    name = "random-set"
    kind = "hyp"
    rule = "a must pair and a dropped pair"

    def examples(self, tier):
        return 150 if tier == "quick" else 1500

    def strategy(self, tier):
        return set_filter_case(tier)

    def check(self, case, ctx):
        check_filter_case(case, ctx)


class RandomEd(Component):
    name = "random-ed"
    kind = "hyp"
    rule = "a must pair and a dropped pair (EDIT_DISTANCE)"

    def examples(self, tier):
        return 100 if tier == "quick" else 1000

    def strategy(self, tier):
        return ed_filter_case(tier)

    def check(self, case, ctx):
        check_filter_case(case, ctx)


E_FILTERS = ("size", "prefix", "position", "suffix")


class E1(Component):
    name = "E1"
    kind = "enum"
    exhaustive = True
    rule = "every (n,m,o) instance, all four filters, filter_tables and filter_pair"

    def bounds(self, tier):
        return {"N": 30 if tier == "quick" else 60, "measures": ["JACCARD", "COSINE", "DICE"],
                "filters": list(E_FILTERS)}

    def shards(self, tier):
        return 16

    def budget_s(self, tier):
        return 200 if tier == "quick" else 3000

    def cases(self, tier):
        return enumgen.e1_cases(self.bounds(tier)["N"])

    def check(self, case, ctx, filters=E_FILTERS):
        triples = [tuple(t) for t in case["triples"]]
        L, R = enumgen.e1_tables(triples)
        lv, rv = L["v"].tolist(), R["v"].tolist()
        m, t = case["measure"], case["threshold"]
        musts = [i for i, (n, mm, o) in enumerate(triples)
                 if oracle.classify(m, n, mm, o, t, ">=") == "must"]
        for ftype in filters:
            tok = mk_tok(enumgen.WS)
            f = calls.make_filter(ctx, {"type": ftype, "measure": m, "threshold": t}, tok)
            if f is None:
                continue
            desc = "%s(%s, %r)" % (CLS[ftype], m, t)
            # SuffixFilter.filter_tables is a quadratic nested loop: large batches are left to
            # filter_pair (same decision procedure, pair-level token order)
            df = None
            if ftype != "suffix" or len(triples) <= 40:
                df = ctx.lib(f.filter_tables, L, R, "id", "id", "v", "v", show_progress=False)
            if df is not None:
                got = set(zip(df["l_id"].tolist(), df["r_id"].tolist()))
                for i in musts:
                    if (i, i) not in got:
                        ctx.violation(drop_sig(ftype),
                                      "%s.filter_tables does not list the pair with sizes/overlap"
                                      " %r (common tokens rarest-last)" % (desc, triples[i]),
                                      key=["E1", "tables", ftype, m, repr(t), list(triples[i])])
            for i in musts:
                if ctx.lib(f.filter_pair, lv[i], rv[i]):
                    ctx.violation(drop_sig(ftype),
                                  "%s.filter_pair drops the pair with sizes/overlap %r"
                                  % (desc, triples[i]),
                                  key=["E1", "pair", ftype, m, repr(t), list(triples[i])])
        ctx.nontrivial(True)
        ctx.label("E1:" + m)

    def shrink_case(self, case, ctx):
        for tr in case["triples"]:
            c = dict(case)
            c["triples"] = [tr]
            try:
                self.check(c, ctx)
            except Exception:
                return c
        return case


class E1Wide(E1):
    """Exact-boundary triples up to N tokens per value through Size/Prefix/PositionFilter
    (filter_tables and filter_pair); SuffixFilter only through filter_pair."""
    name = "E1-wide"
    rule = "every exact-boundary (n,m,o) instance up to N tokens"

    def bounds(self, tier):
        return {"N": 110 if tier == "quick" else 220, "grid": 100,
                "measures": ["JACCARD", "COSINE", "DICE"], "filters": list(E_FILTERS)}

    def cases(self, tier):
        return enumgen.e1_exact_cases(self.bounds(tier)["N"], chunk=80)


class E2(Component):
    name = "E2"
    kind = "enum"
    exhaustive = True
    rule = "every arrangement instance through filter_tables of prefix/position/suffix/size"

    def bounds(self, tier):
        return {"U": 7 if tier == "quick" else 9,
                "measures": ["JACCARD", "COSINE", "DICE", "OVERLAP"], "filters": list(E_FILTERS)}

    def shards(self, tier):
        return 16

    def budget_s(self, tier):
        return 200 if tier == "quick" else 3000

    def cases(self, tier):
        return enumgen.e2_cases(self.bounds(tier)["U"])

    def check(self, case, ctx):
        m, t = case["measure"], case["threshold"]
        L, R, pairs = enumgen.e2_tables(case["instances"], case["filler"], case["orient"])
        musts = []
        for a, pr in zip(case["instances"], pairs):
            n, mm, o = enumgen.counts(a)
            if oracle.classify(m, n, mm, o, t, ">=") == "must":
                musts.append((a, pr))
        for ftype in E_FILTERS:
            tok = mk_tok(enumgen.WS)
            f = calls.make_filter(ctx, {"type": ftype, "measure": m, "threshold": t}, tok)
            if f is None:
                continue
            df = ctx.lib(f.filter_tables, L, R, "id", "id", "v", "v", show_progress=False)
            if df is None:
                continue
            got = set(zip(df["l_id"].tolist(), df["r_id"].tolist()))
            for a, pr in musts:
                if pr not in got:
                    ctx.violation(drop_sig(ftype),
                                  "%s(%s, %r).filter_tables does not list arrangement %s "
                                  "(x/y/both by token order, x on the %s)"
                                  % (CLS[ftype], m, t, a,
                                     "left" if case["orient"] == "xl" else "right"),
                                  key=["E2", ftype, m, repr(t), a, case["orient"],
                                       case["filler"]])
        ctx.nontrivial(True)
        ctx.label("E2:" + m)

    def shrink_case(self, case, ctx):
        for a in case["instances"]:
            c = dict(case)
            c["instances"] = [a]
            try:
                self.check(c, ctx)
            except Exception:
                return c
        return case


def e3_filter_configs(tier):
    doms = [("ab", 6)] if tier == "quick" else [("ab", 7), ("abc", 4)]
    for alphabet, L in doms:
        for q in (1, 2, 3):
            for padding in (True, False):
                for t in (0, 1, 2, 3):
                    for ftype in E_FILTERS:
                        yield {"alphabet": alphabet, "L": L, "q": q, "padding": padding,
                               "threshold": t, "ftype": ftype}


class E3(Component):
    name = "E3"
    kind = "enum"
    exhaustive = True
    rule = "every (filter, q, padding, threshold) over all ordered pairs of short strings"

    def bounds(self, tier):
        return {"domains": [["ab", 6]] if tier == "quick" else [["ab", 7], ["abc", 4]],
                "q": [1, 2, 3], "padding": [True, False], "threshold": [0, 1, 2, 3],
                "filters": list(E_FILTERS)}

    def shards(self, tier):
        return 16

    def budget_s(self, tier):
        return 200 if tier == "quick" else 3000

    def cases(self, tier):
        return e3_filter_configs(tier)

    def check(self, case, ctx):
        strs, T = e3_table(case["alphabet"], case["L"])
        tokcfg = {"kind": "qgram", "q": case["q"], "padding": case["padding"],
                  "return_set": False}
        tok = mk_tok(tokcfg)
        otok = oracle.Tok(tokcfg, False)
        t, ftype = case["threshold"], case["ftype"]
        f = calls.make_filter(ctx, {"type": ftype, "measure": "EDIT_DISTANCE", "threshold": t},
                              tok)
        if f is None:
            return
        desc = "%s(EDIT_DISTANCE, %d; q=%d padding=%s)" % (CLS[ftype], t, case["q"],
                                                           case["padding"])
        df = ctx.lib(f.filter_tables, T, T, "id", "id", "v", "v", show_progress=False)
        got = set(zip(df["l_id"].tolist(), df["r_id"].tolist())) if df is not None else None
        bags = [otok(s) for s in strs]
        sets = [set(b) for b in bags]
        for i, a in enumerate(strs):
            for j, b in enumerate(strs):
                if abs(len(a) - len(b)) > t or sets[i].isdisjoint(sets[j]):
                    continue
                if oracle.levenshtein(a, b) > t:
                    continue
                if got is not None and (i, j) not in got:
                    ctx.violation(drop_sig(ftype),
                                  "%s.filter_tables (cross table of all strings over %r up to "
                                  "length %d) does not list (%r, %r)"
                                  % (desc, case["alphabet"], case["L"], a, b),
                                  key=["E3", "tables", ftype, case["alphabet"], case["L"],
                                       case["q"], case["padding"], t, a, b])
                if ctx.lib(f.filter_pair, a, b):
                    ctx.violation(drop_sig(ftype),
                                  "%s.filter_pair(%r, %r) drops a pair at distance <= %d that "
                                  "shares a q-gram" % (desc, a, b, t),
                                  key=["E3", "pair", ftype, case["q"], case["padding"], t, a, b])
        ctx.nontrivial(True)
        ctx.label("E3:" + ftype)


class Dense(Component):
    """All four threshold filters and OverlapFilter on the dense all-subsets tables of C02:
    every left row shares the hub token with every right row, many rows have equal sizes."""
    name = "dense"
    kind = "enum"
    exhaustive = True
    rule = "every (filter, measure, threshold, n_jobs) over the all-subsets tables"

    def bounds(self, tier):
        return {"universe": 13 if tier == "quick" else 15,
                "max_subset": 2 if tier == "quick" else 3}

    def shards(self, tier):
        return 16

    def budget_s(self, tier):
        return 200 if tier == "quick" else 3000

    def cases(self, tier):
        b = self.bounds(tier)
        for ft in ("size", "prefix", "position", "suffix", "overlap"):
            for m in (["OVERLAP"] if ft == "overlap" else SET_FILTER_MEASURES):
                ts = [1, 2, 3] if m == "OVERLAP" else [0.05, 1.0 / 3, 0.5, 0.6667, 0.75, 1.0]
                for t in ts:
                    for nj in (1, 3):
                        yield {"ftype": ft, "measure": m, "threshold": t, "n_jobs": nj,
                               "universe": b["universe"], "max_subset": b["max_subset"]}

    def check(self, case, ctx):
        import pandas as pd
        from .c02 import dense_rows
        U, K = case["universe"], case["max_subset"]
        subsets = dense_rows(U, K)
        names = [chr(ord("a") + i) for i in range(U)]
        vals = [" ".join([names[i] for i in c] + ["zhub"]) for c in subsets]
        n = len(vals)
        L = pd.DataFrame({"id": list(range(n)), "v": pd.Series(vals, dtype=object)})
        R = pd.DataFrame({"id": list(range(1000, 1000 + n)), "v": pd.Series(vals, dtype=object)})
        ft, m, t = case["ftype"], case["measure"], case["threshold"]
        f = calls.make_filter(ctx, {"type": ft, "measure": m, "threshold": t},
                              mk_tok({"kind": "ws", "return_set": True}))
        if f is None:
            return
        with calls.backend(case["n_jobs"]):
            df = ctx.lib(f.filter_tables, L, R, "id", "id", "v", "v", n_jobs=case["n_jobs"],
                         show_progress=False)
        if df is None:
            return
        got = set(zip(df["l_id"].tolist(), df["r_id"].tolist()))
        sets = [frozenset(c) for c in subsets]
        desc = "%s(%s, %r)" % (CLS[ft], m, t)
        for i in range(n):
            for j in range(n):
                a, b = len(sets[i]) + 1, len(sets[j]) + 1
                o = len(sets[i] & sets[j]) + 1
                if oracle.classify(m, a, b, o, t, ">=") != "must":
                    continue
                if (i, 1000 + j) not in got:
                    ctx.violation(drop_sig(ft),
                                  "%s.filter_tables n_jobs=%d on the dense tables does not list "
                                  "(%r, %r) with sizes/overlap %r"
                                  % (desc, case["n_jobs"], vals[i], vals[j], (a, b, o)),
                                  key=["dense", "tables", ft, m, repr(t), U, K, i, j])
                if (i + j) % 7 == 0 and ctx.lib(f.filter_pair, vals[i], vals[j]):
                    ctx.violation(drop_sig(ft), "%s.filter_pair(%r, %r) drops a qualifying pair "
                                  "(sizes/overlap %r)" % (desc, vals[i], vals[j], (a, b, o)),
                                  key=["dense", "pair", ft, m, repr(t), U, K, i, j])
        ctx.nontrivial(len(got) < n * n)
        ctx.label("dense:" + ft)


@st.composite
def large_filter_case(draw, tier):
    from .c02 import large_case
    case = draw(large_case(tier))
    case["ftype"] = draw(st.sampled_from(["size", "prefix", "position", "position", "overlap"]))
    if case["ftype"] == "overlap":
        case["measure"] = "OVERLAP"
    elif case["measure"] == "OVERLAP_COEFFICIENT":
        case["measure"] = "JACCARD"
    return case


class Large(Component):
    """filter_tables of Size/Prefix/Position/OverlapFilter on the larger synthetic tables of
    C02 (40-400 rows, long values, Zipf vocabulary): every 'must' pair is listed."""
    name = "large"
    kind = "hyp"
    rule = "a 'must' pair and a pair the filter drops"

    def examples(self, tier):
        return 20 if tier == "quick" else 300

    def strategy(self, tier):
        return large_filter_case(tier)

    def check(self, case, ctx):
        from .c02 import large_tables
        L, R, lv, rv = large_tables(case["seed"], case["nl"], case["nr"], case["vocab"],
                                    case["maxtok"])
        ft, m = case["ftype"], case["measure"]
        t = max(1, case["tgrid"] // 12) if m == "OVERLAP" else case["tgrid"] / 100.0
        f = calls.make_filter(ctx, {"type": ft, "measure": m, "threshold": t},
                              mk_tok({"kind": "ws", "return_set": True}))
        if f is None:
            return
        with calls.backend(case["n_jobs"]):
            df = ctx.lib(f.filter_tables, L, R, "key", "key", "val", "val",
                         n_jobs=case["n_jobs"], show_progress=False)
        if df is None:
            return
        got = set(zip(df["l_key"].tolist(), df["r_key"].tolist()))
        lk, rk = L["key"].tolist(), R["key"].tolist()
        ls = [None if v is None else frozenset(v.split()) for v in lv]
        rs = [None if v is None else frozenset(v.split()) for v in rv]
        nmust = 0
        npresent = 0
        for i, x in enumerate(ls):
            for j, y in enumerate(rs):
                if x is None or y is None:
                    continue
                npresent += 1
                if not x or not y:
                    continue
                if oracle.classify(m, len(x), len(y), len(x & y), t, ">=") == "must":
                    nmust += 1
                    if (lk[i], rk[j]) not in got:
                        ctx.violation(drop_sig(ft),
                                      "%s(%s, %r).filter_tables n_jobs=%d on %dx%d synthetic rows "
                                      "(seed %d) does not list %r with sizes/overlap %r"
                                      % (CLS[ft], m, t, case["n_jobs"], case["nl"], case["nr"],
                                         case["seed"], (lk[i], rk[j]),
                                         (len(x), len(y), len(x & y))))
        ctx.nontrivial(nmust > 0 and len(got) < npresent)
        ctx.label("large:" + ft)


COMPONENTS = [RandomSet(), RandomEd(), E1(), E1Wide(), E2(), E3(), Dense(), Large()]
