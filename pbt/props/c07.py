"""C07 -- a join equals filter_tables followed by apply_matcher (differential)."""
from hypothesis import strategies as st

from .. import calls, canon, gen, oracle, simfns
from ..env import mk_tok, ssj
from ..runner import Component

PROPERTY = "C07"
RULE = ("G-TABLE x measure x threshold x operator x first-stage filter (size/prefix/position "
        "with the join's measure and threshold, or OverlapFilter(1)) x n_jobs of both stages; "
        "edit distance on G-STRINGS with Levenshtein as matcher; non-trivial = join result "
        "non-empty and the candidate set strictly larger than it; distinct = case digests")
ASSUMPTIONS = ["reference model used only to classify excluded pairs (empty-empty, straddle, "
               "q-gram sharing)", "set-mode tokenizer handed to all three paths"]

MEASURE_FN = {"JACCARD": "jaccard", "COSINE": "cosine", "DICE": "dice",
              "OVERLAP_COEFFICIENT": "overlap_coefficient", "OVERLAP": "common_count"}


@st.composite
def pipeline_case(draw, tier):
    if draw(st.integers(0, 4)) == 0:
        case = draw(gen.ed_join_case(tier, default_tok=False))
        case["tok"]["return_set"] = False
        case["stage1"] = draw(st.sampled_from(["size", "prefix", "position"]))
        case["threshold"] = int(case["threshold"])
    else:
        case = draw(gen.set_join_case(tier))
        case["tok"]["return_set"] = True
        if case["measure"] == "OVERLAP":
            # the filters take an overlap *size*: integral, like the edit-distance threshold
            case["threshold"] = max(1, int(case["threshold"]))
        if case["measure"] == "OVERLAP_COEFFICIENT":
            case["stage1"] = "overlap"
        else:
            case["stage1"] = draw(st.sampled_from(["size", "prefix", "position", "overlap"]))
    case["l_out"] = None
    case["r_out"] = None
    case["out_sim_score"] = True
    case["filter_allow_empty"] = draw(st.booleans())
    case["filter_n_jobs"] = draw(st.sampled_from([1, 1, 2, 3, -1]))
    case["matcher_n_jobs"] = draw(st.sampled_from([1, 1, 2, 3, -1]))
    return case


class Pipeline(Component):
    name = "pipeline"
    kind = "hyp"
    rule = "join result non-empty and candidate set strictly larger"

    def examples(self, tier):
        return 300 if tier == "quick" else 1200

    def strategy(self, tier):
        return pipeline_case(tier)

    def check(self, case, ctx):
        L, R = canon.build_pair(case)
        m = case["measure"]
        ed = m == "EDIT_DISTANCE"
        jdf = calls.run_join(ctx, case, L, R, mk_tok(case["tok"]))
        if jdf is None:
            return
        # stage 1
        ftok = mk_tok(case["tok"])
        if case["stage1"] == "overlap":
            fcfg = {"type": "overlap", "threshold": 1, "op": ">=",
                    "allow_missing": case["allow_missing"]}
        else:
            fcfg = {"type": case["stage1"], "measure": m, "threshold": case["threshold"],
                    "allow_empty": case["filter_allow_empty"],
                    "allow_missing": case["allow_missing"]}
        f = calls.make_filter(ctx, fcfg, ftok)
        if f is None:
            return
        cand = calls.run_filter_tables(ctx, f, case, L, R, n_jobs=case["filter_n_jobs"])
        if cand is None:
            return
        lkc, rkc = calls.out_key_cols(case)
        # stage 2
        if ed:
            mtok, fn = None, simfns.get("lev")
        else:
            mtok, fn = mk_tok(case["tok"]), simfns.get(MEASURE_FN[m])
        with calls.backend(case["matcher_n_jobs"]):
            pdf = ctx.lib(ssj.apply_matcher, cand, lkc, rkc, L, R, case["L"]["key"],
                          case["R"]["key"], case["L"]["attr"], case["R"]["attr"], mtok, fn,
                          case["threshold"], case["op"], case["allow_missing"], None, None,
                          case["prefix"][0], case["prefix"][1], True, case["matcher_n_jobs"],
                          False)
        if pdf is None:
            return
        jp, jorder = calls.key_pairs(jdf, case)
        if len(pdf) == 0:
            pp, porder = {}, []
            pscores = []
        else:
            pp, porder = calls.key_pairs(pdf, case)
            pscores = pdf["_sim_score"].tolist()
        jscore = dict(zip(jorder, jdf["_sim_score"].tolist()))
        pscore = dict(zip(porder, pscores))
        # classification of exclusions
        lv, rv = calls.lvals(case), calls.rvals(case)
        lk = [canon.cv(k) for k in calls.lkeys(case)]
        rk = [canon.cv(k) for k in calls.rkeys(case)]
        excluded = set()
        sharing = set()
        if ed:
            tok = oracle.Tok(case["tok"], False)
            for i, a in enumerate(lv):
                for j, b in enumerate(rv):
                    if oracle.is_missing(a) or oracle.is_missing(b):
                        continue
                    if oracle.shares_qgram(tok(a), tok(b)):
                        sharing.add((lk[i], rk[j]))
        else:
            P = calls.Pairs(case)
            for k, c in P.cat.items():
                if c in ("bothempty", "straddle"):
                    excluded.add(k)
        desc = "%s join vs %s.filter_tables+apply_matcher threshold=%r op=%s" % (
            m, case["stage1"], case["threshold"], case["op"])
        jset = set(k for k in jp if k not in excluded)
        pset = set(k for k in pp if k not in excluded)
        if ed:
            extra = jset - pset
            if extra:
                ctx.violation("pipeline=EDIT_DISTANCE,kind=join-not-contained",
                              "%s: join returns %r which the pipeline does not"
                              % (desc, sorted(extra, key=repr)[:4]))
            miss = (pset & sharing) - jset
            if miss:
                ctx.violation("pipeline=EDIT_DISTANCE,kind=join-misses-sharing-pair",
                              "%s: pipeline returns q-gram-sharing %r which the join does not"
                              % (desc, sorted(miss, key=repr)[:4]))
        else:
            if jset != pset:
                ctx.violation("pipeline=%s,kind=pair-sets-differ" % m,
                              "%s: only in join %r, only in pipeline %r"
                              % (desc, sorted(jset - pset, key=repr)[:4],
                                 sorted(pset - jset, key=repr)[:4]))
        for k in jset & pset:
            a, b = jscore[k], pscore[k]
            if canon.is_na(a) and canon.is_na(b):
                continue
            if canon.is_na(a) or canon.is_na(b) or round(float(a), 4) != round(float(b), 4):
                ctx.violation("pipeline=%s,kind=scores-differ" % m,
                              "%s: pair %r join score %r, pipeline score %r" % (desc, k, a, b))
        ctx.nontrivial(len(jset) > 0 and len(cand) > len(jdf))
        ctx.label("measure=" + m)
        ctx.label("stage1=" + case["stage1"])
        ctx.label("op=" + case["op"])
        ctx.label("parallel-stage", case["filter_n_jobs"] != 1 or case["matcher_n_jobs"] != 1)
        ctx.label("allow_missing", case["allow_missing"])
        ctx.label("excluded-pairs", bool(excluded))


class E1Pipe(Component):
    """Join vs the four safe first stages + matcher on the E1 size-sweep tables: every pair
    sits exactly at / next to the threshold, with sizes up to N."""
    name = "e1pipe"
    kind = "enum"
    exhaustive = True
    rule = "every E1 batch (sizes <= N) x four first-stage filters"

    def bounds(self, tier):
        return {"N": 26 if tier == "quick" else 52, "measures": ["JACCARD", "COSINE", "DICE"],
                "stage1": ["size", "prefix", "position", "overlap"]}

    def shards(self, tier):
        return 16

    def budget_s(self, tier):
        return 200 if tier == "quick" else 3000

    def cases(self, tier):
        from .. import enumgen
        return enumgen.e1_cases(self.bounds(tier)["N"], chunk=120)

    def check(self, case, ctx):
        from .. import enumgen
        from ..env import JOINS
        triples = [tuple(t) for t in case["triples"]]
        L, R = enumgen.e1_tables(triples)
        m, t = case["measure"], case["threshold"]
        jdf = ctx.lib(JOINS[m], L, R, "id", "id", "v", "v", mk_tok(enumgen.WS), t, ">=", True,
                      False, None, None, "l_", "r_", True, 1, False)
        if jdf is None:
            return
        excluded = set((i, i) for i, (n, mm, o) in enumerate(triples)
                       if oracle.classify(m, n, mm, o, t, ">=") == "straddle")
        jset = set(zip(jdf["l_id"].tolist(), jdf["r_id"].tolist())) - excluded
        for stage in ("size", "prefix", "position", "overlap"):
            tok = mk_tok(enumgen.WS)
            fcfg = {"type": "overlap", "threshold": 1} if stage == "overlap" else \
                {"type": stage, "measure": m, "threshold": t}
            f = calls.make_filter(ctx, fcfg, tok)
            if f is None:
                continue
            cand = ctx.lib(f.filter_tables, L, R, "id", "id", "v", "v", show_progress=False)
            if cand is None:
                continue
            pdf = ctx.lib(ssj.apply_matcher, cand, "l_id", "r_id", L, R, "id", "id", "v", "v",
                          mk_tok(enumgen.WS), simfns.get(MEASURE_FN[m]), t, ">=", False, None,
                          None, "l_", "r_", True, 1, False)
            if pdf is None:
                continue
            pset = set() if len(pdf) == 0 else \
                set(zip(pdf["l_id"].tolist(), pdf["r_id"].tolist())) - excluded
            if pset != jset:
                ctx.violation("pipeline=%s,kind=pair-sets-differ" % m,
                              "%s join vs %s.filter_tables+apply_matcher threshold=%r on E1 sizes: "
                              "only in join %r, only in pipeline %r (sizes/overlap by instance: %r)"
                              % (m, stage, t, sorted(jset - pset)[:3], sorted(pset - jset)[:3],
                                 [triples[i] for i, _ in sorted(jset ^ pset)[:3]]))
        ctx.nontrivial(len(jset) > 0)
        ctx.label("e1pipe:" + m)

    def shrink_case(self, case, ctx):
        for tr in case["triples"]:
            c = dict(case)
            c["triples"] = [tr]
            try:
                self.check(c, ctx)
            except Exception:
                return c
        return case


COMPONENTS = [Pipeline(), E1Pipe()]
