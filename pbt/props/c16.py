"""C16 -- numeric-to-string conversion keeps missing values missing and integers integral."""
import pandas as pd
from hypothesis import strategies as st

from .. import canon
from ..env import ssj
from ..runner import Component

PROPERTY = "C16"
RULE = ("Series / DataFrame columns of int64, float64 (integral / fractional / mixed; NaN none, "
        "some, all), object strings with None, pandas string dtype, empty columns x every "
        "combination of inplace / return_col (incl. rejected and non-bool flags) against an "
        "element-wise model; non-trivial = numeric column with >=1 present and >=1 missing "
        "value, or an int column; distinct = case digests")
ASSUMPTIONS = ["finite numeric values; expected text is str(int(v)) for an all-integral float "
               "column, str(v) otherwise, str(v) for ints"]

NAN = float("nan")
KF2 = "fn=series_to_str,inplace=True,dtype=numeric,present>=1"


PATTERNS = ["int-range", "float-int-nan", "float-frac-late", "float-big-int", "float-nan-late"]


def expand(col):
    """Long columns are stored as a pattern + length and expanded deterministically."""
    if "pattern" not in col:
        return col
    n, p = col["n"], col["pattern"]
    if p == "int-range":
        vals, kind = [3 * i - 7 for i in range(n)], "int"
    elif p == "float-int-nan":
        vals, kind = [float(i) if i % 7 else NAN for i in range(n)], "float"
    elif p == "float-frac-late":
        vals, kind = [float(i) for i in range(n - 1)] + [n - 0.5], "float"
    elif p == "float-big-int":
        vals, kind = [1e15 + i for i in range(n)], "float"
    else:
        vals, kind = [float(i) for i in range(n - 1)] + [NAN], "float"
    return {"kind": kind, "values": vals, "label": "long-" + p}


@st.composite
def column(draw):
    if draw(st.integers(0, 19)) == 0:
        return {"pattern": draw(st.sampled_from(PATTERNS)),
                "n": draw(st.sampled_from([257, 1000, 4097, 20000])), "kind": "long",
                "label": "long"}
    kind = draw(st.sampled_from(["int", "float-int", "float-frac", "float-mixed", "obj",
                                 "strdtype", "float-allnan", "empty-int", "empty-float",
                                 "empty-obj", "float-twins"]))
    n = 0 if kind.startswith("empty") else draw(st.integers(1, 8))
    if kind in ("int", "empty-int"):
        vals = draw(st.lists(st.integers(-10 ** 6, 10 ** 12), min_size=n, max_size=n))
        return {"kind": "int", "values": vals, "label": kind}
    if kind in ("obj", "empty-obj"):
        vals = draw(st.lists(st.sampled_from(["a", "1", "2.0", "", None, "nan", "é x"]),
                             min_size=n, max_size=n))
        return {"kind": "obj", "values": vals, "label": kind}
    if kind == "strdtype":
        vals = draw(st.lists(st.sampled_from(["a", "1", "2.0", "", None, "x y"]), min_size=n,
                             max_size=n))
        return {"kind": "strdtype", "values": vals, "label": kind}
    if kind == "empty-float":
        return {"kind": "float", "values": [], "label": kind}
    if kind == "float-allnan":
        return {"kind": "float", "values": [NAN] * n, "label": kind}
    if kind == "float-twins":
        # values that compare equal (or nearly) but print differently: a conversion that
        # goes through equality / hashing / rounding of the values mixes them up
        twins = [0.0, -0.0, 0.3, 0.30000000000000004, 1.0, 1.0000000000000002, 1e16,
                 1.0000000000000002e16, 0.5, -0.5, 2.5]
        vals = draw(st.lists(st.sampled_from(twins), min_size=max(n, 3), max_size=8))
        if draw(st.booleans()):
            vals[draw(st.integers(0, len(vals) - 1))] = NAN
        return {"kind": "float", "values": vals, "label": kind}
    ints = st.sampled_from([0.0, 1.0, -3.0, 42.0, 1e6, 12345678.0, -0.0, 1e15])
    fracs = st.sampled_from([0.5, -2.25, 3.14159, 1e-3, 123456.789, 0.1])
    elem = {"float-int": ints, "float-frac": fracs, "float-mixed": st.one_of(ints, fracs)}[kind]
    nanp = draw(st.sampled_from([0, 0, 3]))
    vals = []
    for _ in range(n):
        if nanp and draw(st.integers(0, 9)) < nanp:
            vals.append(NAN)
        else:
            vals.append(draw(elem))
    return {"kind": "float", "values": vals, "label": kind}


@st.composite
def conv_case(draw, tier):
    col = draw(column())
    fn = draw(st.sampled_from(["series", "series", "frame", "frame", "frame"]))
    case = {"fn": fn, "col": col, "inplace": draw(st.sampled_from([False, True, False, True,
                                                                   "yes", 1, None]))}
    if fn == "frame":
        case["return_col"] = draw(st.sampled_from([False, True, False, True, "no", 0]))
        n = len(col.get("values", []))
        case["other"] = draw(st.lists(st.integers(0, 5), min_size=n, max_size=n))
        case["index"] = draw(st.sampled_from(["range", "str", "dup"]))
        case["colname"] = draw(st.sampled_from(["x", "col a", "é"]))
    else:
        case["index"] = draw(st.sampled_from(["range", "str", "dup"]))
    return case


def expected_elements(col):
    vals = col["values"]
    if col["kind"] in ("obj", "strdtype"):
        return [canon.NA if v is None else v for v in vals]
    if col["kind"] == "int":
        return [str(v) for v in vals]
    present = [v for v in vals if v == v]
    allint = all(float(v).is_integer() for v in present)
    out = []
    for v in vals:
        if v != v:
            out.append(canon.NA)
        else:
            out.append(str(int(v)) if allint else str(float(v)))
    return out


def elements(series):
    out = []
    for v in series.tolist():
        if canon.is_na(v):
            out.append(canon.NA)
        else:
            out.append(v)   # kept raw: must be a str instance
    return out


def mk_index(kind, n):
    if kind == "str":
        return ["i%d" % k for k in range(n)]
    if kind == "dup":
        return [k // 2 for k in range(n)]
    return list(range(n))


class Convert(Component):
    name = "convert"
    kind = "hyp"
    rule = "numeric column with >=1 present and >=1 missing value, or an int column"

    def examples(self, tier):
        return 600 if tier == "quick" else 3000

    def strategy(self, tier):
        return conv_case(tier)

    def check(self, case, ctx):
        col = expand(case["col"])
        n = len(col["values"])
        if case["fn"] == "frame" and len(case.get("other", [])) != n:
            case = dict(case)
            case["other"] = [i % 3 for i in range(n)]
        s = canon.build_series(col["values"], col["kind"])
        s.index = pd.Index(mk_index(case["index"], n))
        exp = expected_elements(col)
        numeric = col["kind"] in ("int", "float")
        present = [v for v in col["values"] if v is not None and v == v]
        inplace = case["inplace"]
        site = "fn=%s" % ("series_to_str" if case["fn"] == "series" else
                          "dataframe_column_to_str")
        what = "%s(%s column %r, inplace=%r%s)" % (
            site[3:], col["label"], col["values"] if n <= 12 else "<%d values>" % n, inplace,
            ", return_col=%r" % case.get("return_col") if case["fn"] == "frame" else "")

        def same_elements(series, where):
            got = elements(series)
            bad = [g for g in got if g != canon.NA and not isinstance(g, str)]
            if bad:
                ctx.violation(site + ",kind=non-string-element",
                              "%s: %s holds non-string element %r" % (what, where, bad[0]))
            if numeric and pd.api.types.is_numeric_dtype(series.dtype):
                # a converted column is a string column (object or pandas string dtype), also
                # when it holds no present value at all: the joins reject numeric columns
                ctx.violation(site + ",kind=result-still-numeric",
                              "%s: %s has dtype %s after the conversion" % (what, where,
                                                                           series.dtype))
            if got != exp:
                diff = [(i, g, e_) for i, (g, e_) in enumerate(zip(got, exp)) if g != e_][:4]
                ctx.violation(site + ",kind=wrong-elements",
                              "%s: %s differs from the expected text at (position, got, "
                              "expected) %r%s" % (what, where, diff,
                                                  "" if len(got) == len(exp) else
                                                  "; lengths %d vs %d" % (len(got), len(exp))))

        if case["fn"] == "series":
            snap = canon.snapshot(s)
            if not isinstance(inplace, bool):
                self.expect_assertion(ctx, site, what, lambda: ssj.series_to_str(s, inplace))
                return
            if inplace and numeric and present:
                sig = KF2
            else:
                sig = None
            try:
                res = ssj.series_to_str(s, inplace)
            except Exception as e:  # noqa
                ctx.violation(sig or site + ",kind=exception,type=" + type(e).__name__,
                              "%s raised %s: %s" % (what, type(e).__name__, str(e)[:200]))
                return
            if inplace:
                if numeric and not present:
                    # documented exception: an object-typed copy is returned
                    if not isinstance(res, pd.Series) or res.dtype != object:
                        ctx.violation(site + ",kind=documented-exception-not-honoured",
                                      "%s returned %r, expected an object-typed copy"
                                      % (what, res))
                    else:
                        same_elements(res, "returned copy")
                else:
                    if res is not True:
                        ctx.violation(site + ",kind=inplace-return-value",
                                      "%s returned %r, expected True" % (what, res))
                    same_elements(s, "the given series")
            else:
                if not isinstance(res, pd.Series):
                    ctx.violation(site + ",kind=return-type", "%s returned %r" % (what, res))
                    return
                same_elements(res, "returned series")
                if canon.snapshot(s) != snap:
                    ctx.violation(site + ",kind=input-modified",
                                  "%s modified its input series" % what)
                if [canon.cv(i) for i in res.index.tolist()] != \
                        [canon.cv(i) for i in s.index.tolist()]:
                    ctx.violation(site + ",kind=index-changed",
                                  "%s: index %r" % (what, res.index.tolist()))
        else:
            rc = case["return_col"]
            cname = case["colname"]
            df = pd.DataFrame({"k": list(range(n)), cname: s.values, "other": case["other"]})
            df[cname] = s.values if col["kind"] != "strdtype" else pd.Series(s.values,
                                                                             dtype="str")
            df.index = pd.Index(mk_index(case["index"], n))
            snap = canon.snapshot(df)
            others = canon.snapshot(df[["k", "other"]])
            call = lambda: ssj.dataframe_column_to_str(df, cname, inplace, rc)  # noqa: E731
            if not isinstance(inplace, bool) or not isinstance(rc, bool) or (inplace and rc):
                self.expect_assertion(ctx, site, what, call)
                if canon.snapshot(df) != snap:
                    ctx.violation(site + ",kind=input-modified-by-rejected-call",
                                  "%s modified the frame although it was rejected" % what)
                return
            try:
                res = call()
            except Exception as e:  # noqa
                ctx.violation(site + ",kind=exception,type=" + type(e).__name__,
                              "%s raised %s: %s" % (what, type(e).__name__, str(e)[:200]))
                return
            if inplace:
                if res is not True:
                    ctx.violation(site + ",kind=inplace-return-value",
                                  "%s returned %r, expected True" % (what, res))
                same_elements(df[cname], "the given frame's column")
                if canon.snapshot(df[["k", "other"]]) != others:
                    ctx.violation(site + ",kind=other-columns-touched",
                                  "%s changed other columns" % what)
                if [str(c) for c in df.columns] != ["k", cname, "other"]:
                    ctx.violation(site + ",kind=columns-changed",
                                  "%s: columns now %r" % (what, list(df.columns)))
            elif rc:
                if not isinstance(res, pd.Series):
                    ctx.violation(site + ",kind=return-type", "%s returned %r" % (what, res))
                    return
                same_elements(res, "returned column")
                if canon.snapshot(df) != snap:
                    ctx.violation(site + ",kind=input-modified", "%s modified its input" % what)
            else:
                if not isinstance(res, pd.DataFrame):
                    ctx.violation(site + ",kind=return-type", "%s returned %r" % (what, res))
                    return
                if [str(c) for c in res.columns] != ["k", cname, "other"]:
                    ctx.violation(site + ",kind=columns-changed",
                                  "%s: returned columns %r" % (what, list(res.columns)))
                    return
                same_elements(res[cname], "returned frame's column")
                if canon.snapshot(res[["k", "other"]]) != others:
                    ctx.violation(site + ",kind=other-columns-touched",
                                  "%s changed other columns in the copy" % what)
                if canon.snapshot(df) != snap:
                    ctx.violation(site + ",kind=input-modified", "%s modified its input" % what)
        nmiss = len(col["values"]) - len(present)
        ctx.nontrivial((numeric and present and nmiss > 0) or (col["kind"] == "int" and n > 0))
        ctx.label("col=" + col["label"])
        ctx.label(site)
        ctx.label("inplace=%r" % (inplace,))
        if case["fn"] == "frame":
            ctx.label("return_col=%r" % (case["return_col"],))

    def expect_assertion(self, ctx, site, what, call):
        try:
            r = call()
        except AssertionError:
            return
        except Exception as e:  # noqa
            ctx.violation(site + ",kind=wrong-exception-type",
                          "%s raised %s, expected AssertionError" % (what, type(e).__name__))
            return
        ctx.violation(site + ",kind=invalid-flags-accepted", "%s returned %r" % (what, r))


COMPONENTS = [Convert()]
