"""C08 -- missing join values are handled exactly as allow_missing says."""
import collections

from hypothesis import strategies as st

from .. import calls, canon, gen, oracle, simfns
from ..env import mk_tok, ssj
from ..runner import Component
from . import c04

PROPERTY = "C08"
RULE = ("tables with forced missing patterns (left only / right only / both / all / one side "
        "entirely) x six joins and five filter_tables (component 'tables') and filter_pair / "
        "filter_candset / apply_matcher (component 'rowwise') x score column x attributes x "
        "n_jobs; every call is made with allow_missing False and True; 'distributions': every "
        "subset of missing rows for all nl, nr <= 4 per entry point; non-trivial = at least "
        "one missing and one present value on some side; distinct = case digests")
ASSUMPTIONS = ["metamorphic on the present part (allow_missing=False run is the reference for "
               "the present rows of the allow_missing=True run), model on the missing part"]

PATTERNS = ["left", "right", "both", "all", "lall", "rall", "left", "right", "both"]
ENTRY_JOINS = ["JACCARD", "COSINE", "DICE", "OVERLAP_COEFFICIENT", "OVERLAP", "EDIT_DISTANCE"]
ENTRY_FILTERS = ["size", "prefix", "position", "suffix", "overlap"]


@st.composite
def tables_case(draw, tier):
    pattern = draw(st.sampled_from(PATTERNS))
    if draw(st.booleans()):
        m = draw(st.sampled_from(ENTRY_JOINS))
        if m == "EDIT_DISTANCE":
            case = draw(gen.ed_join_case(tier, missing=pattern, default_tok=False))
        else:
            case = draw(gen.set_join_case(tier, measures=[m], missing=pattern))
        case["entry"] = "join"
    else:
        ft = draw(st.sampled_from(ENTRY_FILTERS))
        if ft != "overlap" and draw(st.integers(0, 3)) == 0:
            case = draw(c04.ed_filter_case(tier, ftypes=[ft], missing=pattern))
        else:
            case = draw(c04.set_filter_case(tier, ftypes=[ft], missing=pattern))
        case["entry"] = "filter_tables"
        case["op"] = ">="
        if ft == "overlap":
            case["out_sim_score"] = draw(st.booleans())
    case["pattern"] = pattern
    return case


def missing_keys(case):
    lv, rv = calls.lvals(case), calls.rvals(case)
    lk = [canon.cv(k) for k in calls.lkeys(case)]
    rk = [canon.cv(k) for k in calls.rkeys(case)]
    lm = set(k for k, v in zip(lk, lv) if oracle.is_missing(v))
    rm = set(k for k, v in zip(rk, rv) if oracle.is_missing(v))
    M = set((a, b) for a in lk for b in rk if a in lm or b in rm)
    return lm, rm, M, lk, rk


def call_tables(ctx, case, L, R, allow_missing):
    c = dict(case)
    c["allow_missing"] = allow_missing
    if case["entry"] == "join":
        tok = mk_tok(case["tok"]) if case["tok"] else None
        return calls.run_join(ctx, c, L, R, tok)
    fcfg = c04.fcfg_of(c)
    f = calls.make_filter(ctx, fcfg, mk_tok(case["tok"]))
    if f is None:
        return None
    if case["ftype"] == "overlap":
        return calls.run_filter_tables(ctx, f, c, L, R, out_sim_score=case["out_sim_score"])
    return calls.run_filter_tables(ctx, f, c, L, R)


def name_of(case):
    if case["entry"] == "join":
        return case["measure"].lower() + "_join"
    return c04.CLS[case["ftype"]] + "(%s).filter_tables" % case["measure"]


class Tables(Component):
    name = "tables"
    kind = "hyp"
    rule = ">=1 missing and >=1 present value on some side"

    def examples(self, tier):
        return 400 if tier == "quick" else 1500

    def strategy(self, tier):
        return tables_case(tier)

    def check(self, case, ctx):
        L, R = canon.build_pair(case)
        lm, rm, M, lk, rk = missing_keys(case)
        who = name_of(case)
        A = call_tables(ctx, case, L, R, False)
        B = call_tables(ctx, case, L, R, True)
        if A is None or B is None:
            return
        site = "entry=%s" % (case["measure"] if case["entry"] == "join" else
                             c04.CLS[case["ftype"]])
        ap, aorder = calls.key_pairs(A, case)
        bp, border = calls.key_pairs(B, case)
        for k in ap:
            if k in M:
                ctx.violation(site + ",kind=missing-row-with-allow_missing-false",
                              "%s allow_missing=False returned %r, which involves a missing "
                              "value" % (who, k))
        for k in M:
            if bp[k] != 1:
                ctx.violation(site + ",kind=missing-pair-count",
                              "%s allow_missing=True: pair %r (>=1 side missing; pattern %s) "
                              "occurs %d times, expected exactly once"
                              % (who, k, case["pattern"], bp[k]))
        has_score = "_sim_score" in B.columns
        if has_score:
            for k, s in zip(border, B["_sim_score"].tolist()):
                if k in M and not canon.is_na(s):
                    ctx.violation(site + ",kind=missing-pair-score",
                                  "%s allow_missing=True: missing pair %r has score %r, "
                                  "expected NaN" % (who, k, s))
        if list(A.columns) != list(B.columns):
            ctx.violation(site + ",kind=columns-differ",
                          "%s: columns %r (allow_missing=False) vs %r (True)"
                          % (who, list(A.columns), list(B.columns)))
        ra = collections.Counter(r[1:] for r in canon.rows_of(A))
        rb = collections.Counter(r[1:] for r, k in zip(canon.rows_of(B), border) if k not in M)
        if ra != rb:
            ctx.violation(site + ",kind=present-part-changed",
                          "%s: rows over present values differ between allow_missing False/True:"
                          " only-False %r only-True %r" % (who, list((ra - rb).items())[:3],
                                                           list((rb - ra).items())[:3]))
        some_present = (len(lm) < len(lk)) or (len(rm) < len(rk))
        ctx.nontrivial(bool(M) and some_present and (bool(lm) or bool(rm)))
        ctx.label("pattern=" + case["pattern"])
        ctx.label(site)
        ctx.label("score-column", has_score)
        ctx.label("n_jobs>1", case.get("n_jobs", 1) != 1)
        ctx.label("attrs", case.get("l_out") is not None or case.get("r_out") is not None)
        ctx.label("no-missing-after-all", not M)


@st.composite
def rowwise_case(draw, tier):
    pattern = draw(st.sampled_from(PATTERNS))
    if draw(st.integers(0, 2)) == 0:
        # apply_matcher
        tokcfg = draw(gen.tokenizer_cfg())
        L, R = draw(gen.two_tables(tokcfg, tier, missing=pattern))
        use_tok = draw(st.booleans())
        case = {"entry": "matcher", "tok": tokcfg if use_tok else None,
                "fn": draw(st.sampled_from(simfns.TOKEN_FNS if use_tok else simfns.STRING_FNS)),
                "L": L, "R": R, "candset": draw(gen.candset(L, R)),
                "threshold": draw(st.sampled_from([0, 0.3, 0.5, 1, 2])),
                "op": draw(st.sampled_from([">=", ">", "<=", "<", "=", "!="])),
                "l_out": draw(gen.out_attrs(L)), "r_out": draw(gen.out_attrs(R)),
                "prefix": draw(st.sampled_from(gen.PREFIXES)),
                "out_sim_score": draw(st.booleans()),
                "n_jobs": draw(st.sampled_from([1, 1, 2, 3]))}
    else:
        ft = draw(st.sampled_from(ENTRY_FILTERS))
        if ft != "overlap" and draw(st.integers(0, 3)) == 0:
            case = draw(c04.ed_filter_case(tier, ftypes=[ft], missing=pattern))
        else:
            case = draw(c04.set_filter_case(tier, ftypes=[ft], missing=pattern))
        case["entry"] = "filter"
    case["pattern"] = pattern
    return case


class Rowwise(Component):
    name = "rowwise"
    kind = "hyp"
    rule = ">=1 candidate row with a missing value and >=1 without"

    def examples(self, tier):
        return 400 if tier == "quick" else 1500

    def strategy(self, tier):
        return rowwise_case(tier)

    def check(self, case, ctx):
        L, R = canon.build_pair(case)
        lm, rm, M, lk, rk = missing_keys(case)
        cs = case["candset"]
        C = gen.build_candset(cs)
        crow_missing = [(canon.cv(a) in lm or canon.cv(b) in rm) for a, b in zip(cs["l"], cs["r"])]
        n = cs["names"]
        outs = {}
        if case["entry"] == "matcher":
            who = "apply_matcher"
            site = "entry=apply_matcher"
            tok = mk_tok(case["tok"]) if case["tok"] else None
            fn = simfns.get(case["fn"])
            for am in (False, True):
                with calls.backend(case["n_jobs"]):
                    outs[am] = ctx.lib(ssj.apply_matcher, C, n[0], n[1], L, R, case["L"]["key"],
                                       case["R"]["key"], case["L"]["attr"], case["R"]["attr"],
                                       tok, fn, case["threshold"], case["op"], am,
                                       case["l_out"], case["r_out"], case["prefix"][0],
                                       case["prefix"][1], case["out_sim_score"],
                                       case["n_jobs"], False)
            idcol = "_id"
        else:
            who = c04.CLS[case["ftype"]] + "(%s)" % case["measure"]
            site = "entry=" + c04.CLS[case["ftype"]]
            lv, rv = calls.lvals(case), calls.rvals(case)
            for am in (False, True):
                c = dict(case)
                c["allow_missing"] = am
                f = calls.make_filter(ctx, c04.fcfg_of(c), mk_tok(case["tok"]))
                if f is None:
                    return
                # filter_pair on every pair with a missing side
                for i, a in enumerate(lv):
                    for j, b in enumerate(rv):
                        if oracle.is_missing(a) or oracle.is_missing(b):
                            r = ctx.lib(f.filter_pair, a, b)
                            if r is not None and bool(r) != (not am):
                                ctx.violation(site + ",kind=filter_pair-missing",
                                              "%s allow_missing=%s: filter_pair(%r, %r) "
                                              "returned %r" % (who, am, a, b, r))
                outs[am] = calls.run_filter_candset(ctx, f, case, C, n, L, R,
                                                    case["cand_n_jobs"])
            idcol = "_id"
        A, B = outs[False], outs[True]
        if A is None or B is None:
            return
        ids_missing = set(i for i, mflag in zip(cs["ids"], crow_missing) if mflag)
        a_ids = [canon.cv(v) for v in A[idcol].tolist()] if len(A) else []
        b_ids = [canon.cv(v) for v in B[idcol].tolist()] if len(B) else []
        for i in a_ids:
            if i in ids_missing:
                ctx.violation(site + ",kind=missing-row-with-allow_missing-false",
                              "%s allow_missing=False kept candidate _id=%r which references a "
                              "missing value" % (who, i))
        for i in ids_missing:
            if b_ids.count(i) != 1:
                ctx.violation(site + ",kind=missing-row-count",
                              "%s allow_missing=True: candidate _id=%r (missing value) occurs "
                              "%d times in the result, expected once" % (who, i, b_ids.count(i)))
        if len(B) and "_sim_score" in B.columns:
            for i, s in zip(b_ids, B["_sim_score"].tolist()):
                if i in ids_missing and not canon.is_na(s):
                    ctx.violation(site + ",kind=missing-row-score",
                                  "%s allow_missing=True: candidate _id=%r score %r, expected "
                                  "NaN" % (who, i, s))
        ra = canon.rows_of(A) if len(A) else []
        rb = [r for r, i in zip(canon.rows_of(B), b_ids) if i not in ids_missing] if len(B) else []
        if ra != rb:
            ctx.violation(site + ",kind=present-part-changed",
                          "%s: rows over present values differ between allow_missing False/True:"
                          " %r vs %r" % (who, ra[:4], rb[:4]))
        ctx.nontrivial(any(crow_missing) and not all(crow_missing))
        ctx.label("pattern=" + case["pattern"])
        ctx.label(site)
        ctx.label("empty-candset", len(C) == 0)


@st.composite
def large_missing_case(draw, tier):
    big = tier == "thorough"
    return {"seed": draw(st.integers(0, 2 ** 32 - 1)),
            "nl": draw(st.integers(60, 420 if big else 260)),
            "nr": draw(st.integers(60, 420 if big else 260)),
            "pl": draw(st.sampled_from([0, 5, 30, 60, 100])),
            "pr": draw(st.sampled_from([0, 5, 30, 60, 100])),
            "entry": draw(st.sampled_from(["JACCARD", "OVERLAP", "EDIT_DISTANCE",
                                           "OVERLAP_COEFFICIENT", "size", "overlap", "prefix"])),
            "score": draw(st.booleans()), "attrs": draw(st.booleans()),
            "n_jobs": draw(st.sampled_from([1, 1, 3, 7, 11, 12, 14, 16, 20]))}


class LargeMissing(Component):
    """Tables of 60-420 rows with 0-100 % missing values per side (tens of thousands of
    missing-value pairs): with allow_missing=True every such pair occurs exactly once with a
    NaN score, and the present part equals the allow_missing=False result."""
    name = "large"
    kind = "hyp"
    rule = ">=10 000 pairs with a missing side, or a side with both missing and present values"

    def examples(self, tier):
        return 10 if tier == "quick" else 200

    def strategy(self, tier):
        return large_missing_case(tier)

    def check(self, case, ctx):
        import random

        import pandas as pd
        rnd = random.Random(case["seed"])
        words = ["a", "b", "c", "d", "e", "f", "g", "h"]

        def col(n, pct):
            out = []
            for _ in range(n):
                if rnd.randrange(100) < pct:
                    out.append(None if rnd.random() < 0.5 else float("nan"))
                else:
                    out.append(" ".join(rnd.sample(words, rnd.randint(1, 4))))
            return out

        lv, rv = col(case["nl"], case["pl"]), col(case["nr"], case["pr"])
        L = pd.DataFrame({"id": list(range(case["nl"])), "v": pd.Series(lv, dtype=object),
                          "x": [i % 5 for i in range(case["nl"])]})
        R = pd.DataFrame({"v": pd.Series(rv, dtype=object),
                          "id": [10000 + i for i in range(case["nr"])]})
        e = case["entry"]
        la = ["x"] if case["attrs"] else None
        nj = case["n_jobs"]

        def call(am):
            tok = mk_tok({"kind": "ws", "return_set": True})
            qtok = mk_tok({"kind": "qgram", "q": 2, "padding": True, "return_set": False})
            with calls.backend(nj):
                if e == "EDIT_DISTANCE":
                    return ctx.lib(ssj.edit_distance_join, L, R, "id", "id", "v", "v", 1, "<=",
                                   am, la, None, "l_", "r_", case["score"], nj, False, qtok)
                if e == "OVERLAP":
                    return ctx.lib(ssj.overlap_join, L, R, "id", "id", "v", "v", tok, 2, ">=",
                                   am, la, None, "l_", "r_", case["score"], nj, False)
                if e in ("JACCARD", "OVERLAP_COEFFICIENT"):
                    fn = ssj.jaccard_join if e == "JACCARD" else ssj.overlap_coefficient_join
                    return ctx.lib(fn, L, R, "id", "id", "v", "v", tok, 0.8, ">=", True, am, la,
                                   None, "l_", "r_", case["score"], nj, False)
                if e == "overlap":
                    f = ssj.OverlapFilter(tok, 3, ">=", am)
                    return ctx.lib(f.filter_tables, L, R, "id", "id", "v", "v", la, None, "l_",
                                   "r_", case["score"], nj, False)
                f = (ssj.SizeFilter if e == "size" else ssj.PrefixFilter)(tok, "JACCARD", 0.9,
                                                                           True, am)
                return ctx.lib(f.filter_tables, L, R, "id", "id", "v", "v", la, None, "l_", "r_",
                               nj, False)

        A, B = call(False), call(True)
        if A is None or B is None:
            return
        lm = set(i for i, v in enumerate(lv) if oracle.is_missing(v))
        rm = set(10000 + j for j, v in enumerate(rv) if oracle.is_missing(v))
        site = "entry=%s" % e
        who = "%s on %dx%d rows with %d/%d missing values (seed %d, n_jobs=%d)" % (
            e, case["nl"], case["nr"], len(lm), len(rm), case["seed"], nj)
        bl, br = B["l_id"].tolist(), B["r_id"].tolist()
        bpairs = collections.Counter(zip(bl, br))
        nM = len(lm) * case["nr"] + len(rm) * (case["nl"] - len(lm))
        seenM = 0
        for (i, j), c in bpairs.items():
            if i in lm or j in rm:
                seenM += 1
                if c != 1:
                    ctx.violation(site + ",kind=missing-pair-count",
                                  "%s allow_missing=True: pair (%r, %r) occurs %d times"
                                  % (who, i, j, c))
        if seenM != nM:
            miss = [(i, j) for i in range(case["nl"]) for j in range(10000, 10000 + case["nr"])
                    if (i in lm or j in rm) and bpairs[(i, j)] == 0][:3]
            ctx.violation(site + ",kind=missing-pair-count",
                          "%s allow_missing=True: %d of %d pairs with a missing side are in the "
                          "output; e.g. %r occurs 0 times, expected exactly once"
                          % (who, seenM, nM, miss))
        for i, j in zip(A["l_id"].tolist(), A["r_id"].tolist()):
            if i in lm or j in rm:
                ctx.violation(site + ",kind=missing-row-with-allow_missing-false",
                              "%s allow_missing=False returned (%r, %r)" % (who, i, j))
        if "_sim_score" in B.columns:
            for i, j, sc in zip(bl, br, B["_sim_score"].tolist()):
                if (i in lm or j in rm) and not canon.is_na(sc):
                    ctx.violation(site + ",kind=missing-pair-score",
                                  "%s: missing pair (%r, %r) has score %r" % (who, i, j, sc))
        ra = collections.Counter(r[1:] for r in canon.rows_of(A))
        rb = collections.Counter(r[1:] for r, i, j in zip(canon.rows_of(B), bl, br)
                                 if not (i in lm or j in rm))
        if ra != rb:
            ctx.violation(site + ",kind=present-part-changed",
                          "%s: rows over present values differ between allow_missing False/True"
                          % who)
        if [canon.cv(v) for v in B["_id"].tolist()] != list(range(len(B))):
            ctx.violation(site + ",kind=_id-not-0..n-1", "%s: _id column not 0..n-1" % who)
        ctx.nontrivial(nM >= 10000 or 0 < len(lm) < case["nl"] or 0 < len(rm) < case["nr"])
        ctx.label("large:" + e)
        ctx.label("large:missing-pairs>=10000", nM >= 10000)


class Distributions(Component):
    """Every distribution of missing values over small tables: for all row counts nl, nr <= 4
    and every subset of rows holding a missing value (None or NaN), every join and every
    filter's filter_tables with allow_missing True and False.  The present values are
    identical strings, so each present x present pair qualifies: the exact result is known."""
    name = "distributions"
    kind = "enum"
    exhaustive = True
    rule = "every (entry point, nl, nr) cell runs all 2^nl x 2^nr missing patterns"

    def bounds(self, tier):
        return {"max_rows": 4 if tier == "quick" else 5, "entries": len(ENTRY_JOINS) +
                len(ENTRY_FILTERS)}

    def shards(self, tier):
        return 16

    def budget_s(self, tier):
        return 200 if tier == "quick" else 1500

    def cases(self, tier):
        mr = self.bounds(tier)["max_rows"]
        # entry points innermost: the heavy (nl, nr) cells spread over the shards
        for nl in range(1, mr + 1):
            for nr in range(1, mr + 1):
                for kind, what in [("join", m) for m in ENTRY_JOINS] + \
                        [("filter", f) for f in ENTRY_FILTERS]:
                    yield {"kind": kind, "what": what, "nl": nl, "nr": nr}

    def check(self, case, ctx):
        import pandas as pd
        from ..env import FILTER_NAMES, JOIN_NAMES
        nl, nr = case["nl"], case["nr"]
        what = case["what"]
        name = ("%s_join" % what.lower()) if case["kind"] == "join" else \
            "%s.filter_tables" % FILTER_NAMES[what]
        ed = what == "EDIT_DISTANCE"
        for lmask in range(2 ** nl):
            for rmask in range(2 ** nr):
                lm = [bool(lmask >> i & 1) for i in range(nl)]
                rm = [bool(rmask >> j & 1) for j in range(nr)]
                # None and NaN alternate as the missing marker
                lv = [(None if i % 2 else float("nan")) if lm[i] else "ab cd" for i in range(nl)]
                rv = [(None if j % 2 == 0 else float("nan")) if rm[j] else "ab cd"
                      for j in range(nr)]
                L = pd.DataFrame({"id": list(range(nl)), "v": pd.Series(lv, dtype=object)})
                R = pd.DataFrame({"id": list(range(100, 100 + nr)),
                                  "v": pd.Series(rv, dtype=object)})
                for am in (False, True):
                    for nj in ((1,) if (lmask + rmask) % 3 else (1, 2)):
                        if ed:
                            tok = mk_tok({"kind": "qgram", "q": 2, "padding": True,
                                          "return_set": False})
                        else:
                            tok = mk_tok({"kind": "ws", "return_set": True})
                        with calls.backend(nj):
                            if case["kind"] == "join":
                                fn = getattr(ssj, JOIN_NAMES[what])
                                if ed:
                                    df = ctx.lib(fn, L, R, "id", "id", "v", "v", 1, "<=", am,
                                                 None, None, "l_", "r_", True, nj, False, tok)
                                elif what == "OVERLAP":
                                    df = ctx.lib(fn, L, R, "id", "id", "v", "v", tok, 1, ">=", am,
                                                 None, None, "l_", "r_", True, nj, False)
                                else:
                                    df = ctx.lib(fn, L, R, "id", "id", "v", "v", tok, 0.8, ">=",
                                                 True, am, None, None, "l_", "r_", True, nj,
                                                 False)
                            else:
                                if what == "overlap":
                                    f = ctx.lib(ssj.OverlapFilter, tok, 1, ">=", am)
                                else:
                                    f = ctx.lib(getattr(ssj, FILTER_NAMES[what]), tok, "JACCARD",
                                                0.8, True, am)
                                df = None if f is None else ctx.lib(
                                    f.filter_tables, L, R, "id", "id", "v", "v", n_jobs=nj,
                                    show_progress=False)
                        if df is None:
                            continue
                        got = collections.Counter(zip(df["l_id"].tolist(), df["r_id"].tolist()))
                        want = collections.Counter()
                        for i in range(nl):
                            for j in range(nr):
                                if (lm[i] or rm[j]) and not am:
                                    continue
                                want[(i, 100 + j)] = 1
                        if got != want:
                            ctx.violation(
                                "entry=%s,kind=missing-distribution" % what,
                                "%s allow_missing=%r n_jobs=%d, left values missing at rows %r of "
                                "%d, right at rows %r of %d: pairs only returned %r, only expected "
                                "%r" % (name, am, nj, [i for i in range(nl) if lm[i]], nl,
                                        [j for j in range(nr) if rm[j]], nr,
                                        sorted((got - want).items())[:4],
                                        sorted((want - got).items())[:4]))
                        if am and "_sim_score" in df.columns:
                            for a, b, sc in zip(df["l_id"].tolist(), df["r_id"].tolist(),
                                                df["_sim_score"].tolist()):
                                miss = lm[a] or rm[b - 100]
                                if miss != (sc != sc):
                                    ctx.violation(
                                        "entry=%s,kind=missing-pair-score" % what,
                                        "%s allow_missing=True: pair (%d, %d) (%s) has _sim_score "
                                        "%r" % (name, a, b, "a side missing" if miss
                                                else "both present", sc))
        ctx.nontrivial(True)
        ctx.label("distributions:" + name)


COMPONENTS = [Tables(), Rowwise(), LargeMissing(), Distributions()]
