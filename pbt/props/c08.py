"""C08 -- missing join values are handled exactly as allow_missing says."""
import collections

from hypothesis import strategies as st

from .. import calls, canon, gen, oracle, simfns
from ..env import mk_tok, ssj
from ..runner import Component
from . import c04

PROPERTY = "C08"
RULE = ("tables with forced missing patterns (left only / right only / both / all / one side "
        "entirely) x six joins and five filter_tables (component 'tables') and filter_pair / "
        "filter_candset / apply_matcher (component 'rowwise') x score column x attributes x "
        "n_jobs; every call is made with allow_missing False and True; non-trivial = at least "
        "one missing and one present value on some side; distinct = case digests")
ASSUMPTIONS = ["metamorphic on the present part (allow_missing=False run is the reference for "
               "the present rows of the allow_missing=True run), model on the missing part"]

PATTERNS = ["left", "right", "both", "all", "lall", "rall", "left", "right", "both"]
ENTRY_JOINS = ["JACCARD", "COSINE", "DICE", "OVERLAP_COEFFICIENT", "OVERLAP", "EDIT_DISTANCE"]
ENTRY_FILTERS = ["size", "prefix", "position", "suffix", "overlap"]


@st.composite
def tables_case(draw, tier):
    pattern = draw(st.sampled_from(PATTERNS))
    if draw(st.booleans()):
        m = draw(st.sampled_from(ENTRY_JOINS))
        if m == "EDIT_DISTANCE":
            case = draw(gen.ed_join_case(tier, missing=pattern, default_tok=False))
        else:
            case = draw(gen.set_join_case(tier, measures=[m], missing=pattern))
        case["entry"] = "join"
    else:
        ft = draw(st.sampled_from(ENTRY_FILTERS))
        if ft != "overlap" and draw(st.integers(0, 3)) == 0:
            case = draw(c04.ed_filter_case(tier, ftypes=[ft], missing=pattern))
        else:
            case = draw(c04.set_filter_case(tier, ftypes=[ft], missing=pattern))
        case["entry"] = "filter_tables"
        case["op"] = ">="
        if ft == "overlap":
            case["out_sim_score"] = draw(st.booleans())
    case["pattern"] = pattern
    return case


def missing_keys(case):
    lv, rv = calls.lvals(case), calls.rvals(case)
    lk = [canon.cv(k) for k in calls.lkeys(case)]
    rk = [canon.cv(k) for k in calls.rkeys(case)]
    lm = set(k for k, v in zip(lk, lv) if oracle.is_missing(v))
    rm = set(k for k, v in zip(rk, rv) if oracle.is_missing(v))
    M = set((a, b) for a in lk for b in rk if a in lm or b in rm)
    return lm, rm, M, lk, rk


def call_tables(ctx, case, L, R, allow_missing):
    c = dict(case)
    c["allow_missing"] = allow_missing
    if case["entry"] == "join":
        tok = mk_tok(case["tok"]) if case["tok"] else None
        return calls.run_join(ctx, c, L, R, tok)
    fcfg = c04.fcfg_of(c)
    f = calls.make_filter(ctx, fcfg, mk_tok(case["tok"]))
    if f is None:
        return None
    if case["ftype"] == "overlap":
        return calls.run_filter_tables(ctx, f, c, L, R, out_sim_score=case["out_sim_score"])
    return calls.run_filter_tables(ctx, f, c, L, R)


def name_of(case):
    if case["entry"] == "join":
        return case["measure"].lower() + "_join"
    return c04.CLS[case["ftype"]] + "(%s).filter_tables" % case["measure"]


class Tables(Component):
    name = "tables"
    kind = "hyp"
    rule = ">=1 missing and >=1 present value on some side"

    def examples(self, tier):
        return 400 if tier == "quick" else 1500

    def strategy(self, tier):
        return tables_case(tier)

    def check(self, case, ctx):
        L, R = canon.build_table(case["L"]), canon.build_table(case["R"])
        lm, rm, M, lk, rk = missing_keys(case)
        who = name_of(case)
        A = call_tables(ctx, case, L, R, False)
        B = call_tables(ctx, case, L, R, True)
        if A is None or B is None:
            return
        site = "entry=%s" % (case["measure"] if case["entry"] == "join" else
                             c04.CLS[case["ftype"]])
        ap, aorder = calls.key_pairs(A, case)
        bp, border = calls.key_pairs(B, case)
        for k in ap:
            if k in M:
                ctx.violation(site + ",kind=missing-row-with-allow_missing-false",
                              "%s allow_missing=False returned %r, which involves a missing "
                              "value" % (who, k))
        for k in M:
            if bp[k] != 1:
                ctx.violation(site + ",kind=missing-pair-count",
                              "%s allow_missing=True: pair %r (>=1 side missing; pattern %s) "
                              "occurs %d times, expected exactly once"
                              % (who, k, case["pattern"], bp[k]))
        has_score = "_sim_score" in B.columns
        if has_score:
            for k, s in zip(border, B["_sim_score"].tolist()):
                if k in M and not canon.is_na(s):
                    ctx.violation(site + ",kind=missing-pair-score",
                                  "%s allow_missing=True: missing pair %r has score %r, "
                                  "expected NaN" % (who, k, s))
        if list(A.columns) != list(B.columns):
            ctx.violation(site + ",kind=columns-differ",
                          "%s: columns %r (allow_missing=False) vs %r (True)"
                          % (who, list(A.columns), list(B.columns)))
        ra = collections.Counter(r[1:] for r in canon.rows_of(A))
        rb = collections.Counter(r[1:] for r, k in zip(canon.rows_of(B), border) if k not in M)
        if ra != rb:
            ctx.violation(site + ",kind=present-part-changed",
                          "%s: rows over present values differ between allow_missing False/True:"
                          " only-False %r only-True %r" % (who, list((ra - rb).items())[:3],
                                                           list((rb - ra).items())[:3]))
        some_present = (len(lm) < len(lk)) or (len(rm) < len(rk))
        ctx.nontrivial(bool(M) and some_present and (bool(lm) or bool(rm)))
        ctx.label("pattern=" + case["pattern"])
        ctx.label(site)
        ctx.label("score-column", has_score)
        ctx.label("n_jobs>1", case.get("n_jobs", 1) != 1)
        ctx.label("attrs", case.get("l_out") is not None or case.get("r_out") is not None)
        ctx.label("no-missing-after-all", not M)


@st.composite
def rowwise_case(draw, tier):
    pattern = draw(st.sampled_from(PATTERNS))
    if draw(st.integers(0, 2)) == 0:
        # apply_matcher
        tokcfg = draw(gen.tokenizer_cfg())
        L, R = draw(gen.two_tables(tokcfg, tier, missing=pattern))
        use_tok = draw(st.booleans())
        case = {"entry": "matcher", "tok": tokcfg if use_tok else None,
                "fn": draw(st.sampled_from(simfns.TOKEN_FNS if use_tok else simfns.STRING_FNS)),
                "L": L, "R": R, "candset": draw(gen.candset(L, R)),
                "threshold": draw(st.sampled_from([0, 0.3, 0.5, 1, 2])),
                "op": draw(st.sampled_from([">=", ">", "<=", "<", "=", "!="])),
                "l_out": draw(gen.out_attrs(L)), "r_out": draw(gen.out_attrs(R)),
                "prefix": draw(st.sampled_from(gen.PREFIXES)),
                "out_sim_score": draw(st.booleans()),
                "n_jobs": draw(st.sampled_from([1, 1, 2, 3]))}
    else:
        ft = draw(st.sampled_from(ENTRY_FILTERS))
        if ft != "overlap" and draw(st.integers(0, 3)) == 0:
            case = draw(c04.ed_filter_case(tier, ftypes=[ft], missing=pattern))
        else:
            case = draw(c04.set_filter_case(tier, ftypes=[ft], missing=pattern))
        case["entry"] = "filter"
    case["pattern"] = pattern
    return case


class Rowwise(Component):
    name = "rowwise"
    kind = "hyp"
    rule = ">=1 candidate row with a missing value and >=1 without"

    def examples(self, tier):
        return 400 if tier == "quick" else 1500

    def strategy(self, tier):
        return rowwise_case(tier)

    def check(self, case, ctx):
        L, R = canon.build_table(case["L"]), canon.build_table(case["R"])
        lm, rm, M, lk, rk = missing_keys(case)
        cs = case["candset"]
        C = gen.build_candset(cs)
        crow_missing = [(canon.cv(a) in lm or canon.cv(b) in rm) for a, b in zip(cs["l"], cs["r"])]
        n = cs["names"]
        outs = {}
        if case["entry"] == "matcher":
            who = "apply_matcher"
            site = "entry=apply_matcher"
            tok = mk_tok(case["tok"]) if case["tok"] else None
            fn = simfns.get(case["fn"])
            for am in (False, True):
                with calls.backend(case["n_jobs"]):
                    outs[am] = ctx.lib(ssj.apply_matcher, C, n[0], n[1], L, R, case["L"]["key"],
                                       case["R"]["key"], case["L"]["attr"], case["R"]["attr"],
                                       tok, fn, case["threshold"], case["op"], am,
                                       case["l_out"], case["r_out"], case["prefix"][0],
                                       case["prefix"][1], case["out_sim_score"],
                                       case["n_jobs"], False)
            idcol = "_id"
        else:
            who = c04.CLS[case["ftype"]] + "(%s)" % case["measure"]
            site = "entry=" + c04.CLS[case["ftype"]]
            lv, rv = calls.lvals(case), calls.rvals(case)
            for am in (False, True):
                c = dict(case)
                c["allow_missing"] = am
                f = calls.make_filter(ctx, c04.fcfg_of(c), mk_tok(case["tok"]))
                if f is None:
                    return
                # filter_pair on every pair with a missing side
                for i, a in enumerate(lv):
                    for j, b in enumerate(rv):
                        if oracle.is_missing(a) or oracle.is_missing(b):
                            r = ctx.lib(f.filter_pair, a, b)
                            if r is not None and bool(r) != (not am):
                                ctx.violation(site + ",kind=filter_pair-missing",
                                              "%s allow_missing=%s: filter_pair(%r, %r) "
                                              "returned %r" % (who, am, a, b, r))
                outs[am] = calls.run_filter_candset(ctx, f, case, C, n, L, R,
                                                    case["cand_n_jobs"])
            idcol = "_id"
        A, B = outs[False], outs[True]
        if A is None or B is None:
            return
        ids_missing = set(i for i, mflag in zip(cs["ids"], crow_missing) if mflag)
        a_ids = [canon.cv(v) for v in A[idcol].tolist()] if len(A) else []
        b_ids = [canon.cv(v) for v in B[idcol].tolist()] if len(B) else []
        for i in a_ids:
            if i in ids_missing:
                ctx.violation(site + ",kind=missing-row-with-allow_missing-false",
                              "%s allow_missing=False kept candidate _id=%r which references a "
                              "missing value" % (who, i))
        for i in ids_missing:
            if b_ids.count(i) != 1:
                ctx.violation(site + ",kind=missing-row-count",
                              "%s allow_missing=True: candidate _id=%r (missing value) occurs "
                              "%d times in the result, expected once" % (who, i, b_ids.count(i)))
        if len(B) and "_sim_score" in B.columns:
            for i, s in zip(b_ids, B["_sim_score"].tolist()):
                if i in ids_missing and not canon.is_na(s):
                    ctx.violation(site + ",kind=missing-row-score",
                                  "%s allow_missing=True: candidate _id=%r score %r, expected "
                                  "NaN" % (who, i, s))
        ra = canon.rows_of(A) if len(A) else []
        rb = [r for r, i in zip(canon.rows_of(B), b_ids) if i not in ids_missing] if len(B) else []
        if ra != rb:
            ctx.violation(site + ",kind=present-part-changed",
                          "%s: rows over present values differ between allow_missing False/True:"
                          " %r vs %r" % (who, ra[:4], rb[:4]))
        ctx.nontrivial(any(crow_missing) and not all(crow_missing))
        ctx.label("pattern=" + case["pattern"])
        ctx.label(site)
        ctx.label("empty-candset", len(C) == 0)


COMPONENTS = [Tables(), Rowwise()]
