"""C17 -- the profiler reports exact unique/missing counts and key suitability."""
import re

import pandas as pd
from hypothesis import strategies as st

from .. import canon, gen
from ..env import ssj
from ..runner import Component

PROPERTY = "C17"
RULE = ("'small': tables of 1-60 rows with columns of every dtype, duplicates and missing "
        "values, profile_attrs None / subset / permutation; 'large': range(n) columns with n "
        "around 20 000 / 50 000 / 200 000 and 0-3 injected duplicates and missing values (where "
        "the two-decimal percentages round to 100.0 / 0.0); model = exact distinct / missing "
        "counts, percentage within 0.005, key comment <=> all distinct and none missing, "
        "ignore warning <=> >=1 missing; non-trivial = a column with a duplicate or a missing "
        "value; distinct = case digests")
ASSUMPTIONS = ["in an object column that mixes None and NaN the 'Unique values' count may count "
               "the two markers once or twice (both readings of 'a missing value counting as one "
               "value' accepted); the missing count stays exact",
               "comments matched on the words 'key' and 'ignore'"]

STAT = re.compile(r"^(\d+) \((-?\d+(?:\.\d+)?(?:e-?\d+)?)%\)$")


@st.composite
def small_case(draw, tier):
    n = draw(st.integers(1, 60 if tier == "thorough" else 30))
    cols = []
    names = draw(st.lists(st.sampled_from(["id", "name", "zip", "x", "y y", "é", "flag", "when"]),
                          min_size=1, max_size=5, unique=True))
    for nm in names:
        kind = draw(st.sampled_from(["int", "float", "obj", "bool", "datetime", "uniq-int",
                                     "uniq-obj", "uniq-float-nan", "obj-mixed"]))
        if kind == "uniq-int":
            c = {"name": nm, "kind": "int", "values": list(range(100, 100 + n))}
        elif kind == "uniq-obj":
            vals = ["s%d" % i for i in range(n)]
            if draw(st.booleans()):
                vals[draw(st.integers(0, n - 1))] = None
            c = {"name": nm, "kind": "obj", "values": vals}
        elif kind == "uniq-float-nan":
            vals = [i + 0.5 for i in range(n)]
            for _ in range(draw(st.integers(0, 2))):
                vals[draw(st.integers(0, n - 1))] = float("nan")
            c = {"name": nm, "kind": "float", "values": vals}
        elif kind == "obj-mixed":
            # None and NaN side by side in one object column (e.g. after a concat / merge)
            c = {"name": nm, "kind": "obj",
                 "values": draw(st.lists(st.sampled_from(["a", "b", None, float("nan"), "c d",
                                                          None, float("nan")]),
                                         min_size=n, max_size=n))}
        elif kind == "int":
            c = {"name": nm, "kind": "int",
                 "values": draw(st.lists(st.integers(0, n), min_size=n, max_size=n))}
        elif kind == "float":
            c = {"name": nm, "kind": "float",
                 "values": draw(st.lists(st.sampled_from([0.5, 1.0, 2.0, float("nan"), 3.25]),
                                         min_size=n, max_size=n))}
        elif kind == "bool":
            c = {"name": nm, "kind": "bool",
                 "values": draw(st.lists(st.booleans(), min_size=n, max_size=n))}
        elif kind == "datetime":
            c = {"name": nm, "kind": "datetime",
                 "values": draw(st.lists(st.sampled_from(["2001-01-01", "2002-02-02", None]),
                                         min_size=n, max_size=n))}
        else:
            marker = draw(st.sampled_from([None, float("nan")]))
            c = {"name": nm, "kind": "obj",
                 "values": draw(st.lists(st.sampled_from(["a", "b", "a b", "", marker, "é"]),
                                         min_size=n, max_size=n))}
        cols.append(c)
    req = draw(st.sampled_from(["none", "subset", "perm", "none", "subset", "perm", "empty"]))
    if req == "none":
        attrs = None
    elif req == "empty":
        attrs = []
    elif req == "perm":
        attrs = list(draw(st.permutations(names)))
    else:
        attrs = draw(st.lists(st.sampled_from(names), min_size=1, max_size=len(names),
                              unique=True))
    return {"kind": "small", "table": {"columns": cols, "index": draw(gen.index_labels(n))},
            "attrs": attrs}


@st.composite
def large_case(draw, tier):
    n = draw(st.sampled_from([20001, 20001, 25000, 50000, 200000 if tier == "thorough"
                              else 40001, 19999, 10001]))
    return {"kind": "large", "n": n, "dups": draw(st.integers(0, 3)),
            "missing": draw(st.integers(0, 3)),
            "dtype": draw(st.sampled_from(["int", "float", "obj"])),
            "where": draw(st.sampled_from(["front", "back", "middle"]))}


def build_large(case):
    n = case["n"]
    pos = {"front": 1, "back": n - 8, "middle": n // 2}[case["where"]]
    if case["dtype"] == "obj":
        vals = ["v%d" % i for i in range(n)]
        for d in range(case["dups"]):
            vals[pos + d] = vals[0]
        for m in range(case["missing"]):
            vals[pos + 4 + m] = None
        s = pd.Series(vals, dtype=object)
    else:
        vals = [float(i) for i in range(n)] if (case["dtype"] == "float" or case["missing"]) \
            else list(range(n))
        for d in range(case["dups"]):
            vals[pos + d] = vals[0]
        for m in range(case["missing"]):
            vals[pos + 4 + m] = float("nan")
        s = pd.Series(vals)
    return pd.DataFrame({"k": list(range(n)), "col": s})


def check_profile(ctx, df, attrs, what):
    try:
        out = ssj.profile_table_for_join(df) if attrs is None else \
            ssj.profile_table_for_join(df, attrs)
    except Exception as e:  # noqa
        ctx.violation("fn=profile_table_for_join,kind=exception,type=" + type(e).__name__,
                      "%s raised %s: %s" % (what, type(e).__name__, str(e)[:200]))
        return False
    want = list(df.columns) if attrs is None else list(attrs)
    site = "fn=profile_table_for_join"
    if not isinstance(out, pd.DataFrame) or [str(i) for i in out.index.tolist()] != \
            [str(a) for a in want]:
        ctx.violation(site + ",kind=wrong-rows",
                      "%s: result index %r, expected one row per attribute %r"
                      % (what, getattr(out, "index", None), want))
        return False
    for c in ("Unique values", "Missing values", "Comments"):
        if c not in out.columns:
            ctx.violation(site + ",kind=missing-column", "%s: no column %r" % (what, c))
            return False
    n = len(df)
    interesting = False
    for pos, a in enumerate(want):
        raw = df[a].tolist()
        vals = [canon.cv(v) for v in raw]
        nmiss = sum(1 for v in vals if v == canon.NA)
        nuniq = len(set(vals))
        # distinct kinds of missing marker (None / NaN / NA / NaT) in the column
        markers = len(set("None" if v is None else type(v).__name__
                          for v, c in zip(raw, vals) if c == canon.NA))
        if nmiss or nuniq < n:
            interesting = True
        for colname, cnt in (("Unique values", nuniq), ("Missing values", nmiss)):
            cell = out[colname].iloc[pos]
            mt = STAT.match(str(cell))
            if not mt:
                ctx.violation(site + ",kind=unparsable-statistic",
                              "%s: attribute %r %s = %r" % (what, a, colname, cell))
                continue
            if colname == "Unique values" and markers > 1 and \
                    cnt <= int(mt.group(1)) <= cnt + markers - 1:
                cnt = int(mt.group(1))      # either reading of the mixed markers
            if int(mt.group(1)) != cnt:
                ctx.violation(site + ",kind=wrong-count",
                              "%s: attribute %r %s reports %s, exact count is %d (of %d rows)"
                              % (what, a, colname, cell, cnt, n))
            if abs(float(mt.group(2)) - 100.0 * cnt / n) > 0.005 + 1e-9:
                ctx.violation(site + ",kind=wrong-percentage",
                              "%s: attribute %r %s reports %s, exact percentage %.6f"
                              % (what, a, colname, cell, 100.0 * cnt / n))
        comment = str(out["Comments"].iloc[pos])
        says_key = "key" in comment.lower()
        says_ignore = "ignore" in comment.lower()
        is_key = nuniq == n and nmiss == 0
        if says_key != is_key:
            ctx.violation(site + ",kind=key-comment",
                          "%s: attribute %r with %d distinct values and %d missing in %d rows: "
                          "comment %r %s a key" % (what, a, nuniq, nmiss, n, comment,
                                                   "recommends" if says_key
                                                   else "does not recommend"))
        if says_ignore != (nmiss > 0):
            ctx.violation(site + ",kind=ignore-comment",
                          "%s: attribute %r with %d missing values in %d rows: comment %r"
                          % (what, a, nmiss, n, comment))
    return interesting


class Small(Component):
    name = "small"
    kind = "hyp"
    rule = "a profiled column with a duplicate or a missing value"

    def examples(self, tier):
        return 300 if tier == "quick" else 1200

    def strategy(self, tier):
        return small_case(tier)

    def check(self, case, ctx):
        df = canon.build_table(case["table"])
        snap = canon.snapshot(df)
        nt = check_profile(ctx, df, case["attrs"], "profile_table_for_join(%d rows, attrs=%r)"
                           % (len(df), case["attrs"]))
        if canon.snapshot(df) != snap:
            ctx.violation("fn=profile_table_for_join,kind=input-modified", "input table changed")
        ctx.nontrivial(nt)
        ctx.label("attrs=" + ("None" if case["attrs"] is None else "list"))
        for c in case["table"]["columns"]:
            ctx.label("dtype=" + c["kind"])
            ctx.label("mixed-missing-markers",
                      c["kind"] == "obj" and any(v is None for v in c["values"]) and
                      any(isinstance(v, float) for v in c["values"]))


class Large(Component):
    name = "large"
    kind = "hyp"
    rule = "a large column with an injected duplicate or missing value"

    def examples(self, tier):
        return 40 if tier == "quick" else 300

    def strategy(self, tier):
        return large_case(tier)

    def check(self, case, ctx):
        df = build_large(case)
        check_profile(ctx, df, ["col"], "profile_table_for_join(range(%d) as %s with %d "
                      "duplicates and %d missing values)" % (case["n"], case["dtype"],
                                                             case["dups"], case["missing"]))
        ctx.nontrivial(case["dups"] > 0 or case["missing"] > 0)
        ctx.label("n>20000", case["n"] > 20000)
        ctx.label("dups=%d" % case["dups"])
        ctx.label("missing=%d" % case["missing"])


COMPONENTS = [Small(), Large()]
