"""C15 -- invalid arguments are rejected up front; valid ones are never rejected."""
import numpy as np
import pandas as pd
from hypothesis import strategies as st

from .. import calls, canon, gen, simfns
from ..env import FILTERS, JOINS, mk_tok, ssj
from ..runner import Component

PROPERTY = "C15"
RULE = ("'invalid': every generated valid context (G-TABLE >=2 rows, set- or bag-mode tokenizer, "
        "candidate set) is run through the full matrix entry point x kind of invalid argument "
        "(exactly one argument invalid): documented exception type, all arguments incl. the "
        "tokenizer mode unchanged afterwards; every context hits every cell. 'valid': degenerate "
        "but valid shapes (0/1 rows, all missing, all empty) x object / pandas string dtype x "
        "every entry point must return a DataFrame (bool for filter_pair); non-trivial = a "
        "table with 0 rows or all values missing/empty; distinct = case digests")
ASSUMPTIONS = ["attribute names and measure names handed in are strings; thresholds numeric"]

SET_M = ["JACCARD", "COSINE", "DICE", "OVERLAP_COEFFICIENT"]
FILTER_M = ["JACCARD", "COSINE", "DICE", "OVERLAP", "EDIT_DISTANCE"]
QG = {"kind": "qgram", "q": 2, "padding": True, "return_set": False}


class NotATokenizer(object):
    def tokenize(self, s):
        return s.split()


def bad_tables():
    return [("list", [[1, "a"]]), ("none", None), ("series", pd.Series(["a", "b"])),
            ("ndarray", np.array([[1, 2]])), ("dict", {"id": [1]})]


@st.composite
def context(draw, tier):
    tokcfg = draw(gen.tokenizer_cfg())
    L, R = draw(gen.two_tables(tokcfg, "quick", missing=draw(st.sampled_from(
        ["none", "none", "both"])), min_rows=2))
    for T in (L, R):
        n = canon.table_len(T)
        T["columns"].append({"name": "zz_num", "kind": "int", "values": list(range(n))})
        T["columns"].append({"name": "zz_flt", "kind": "float",
                             "values": [0.5 + i for i in range(n)]})
        T["columns"].append({"name": "zz_dup", "kind": "int", "values": [7] * n})
        T["columns"].append({"name": "zz_nan", "kind": "float",
                             "values": [float("nan")] + [float(i) for i in range(1, n)]})
    return {"tok": tokcfg, "L": L, "R": R, "candset": draw(gen.candset(L, R)),
            "which_bad_table": draw(st.integers(0, 4)),
            "q": draw(st.integers(1, 3)), "qset": draw(st.booleans()),
            "n_jobs": draw(st.sampled_from([1, 1, 2]))}


def threshold_bad(measure):
    if measure == "EDIT_DISTANCE":
        return [-1, -0.5]
    if measure == "OVERLAP":
        return [0, -1, -0.5]
    return [0, 0.0, -0.1, 1.0000001, 1.5, 2]


def threshold_ok(measure):
    return {"EDIT_DISTANCE": 1, "OVERLAP": 1}.get(measure, 0.5)


class Invalid(Component):
    name = "invalid"
    kind = "hyp"
    rule = "every context runs every (entry point, invalid-argument kind) cell"

    def examples(self, tier):
        return 12 if tier == "quick" else 120

    def strategy(self, tier):
        return context(tier)

    # -------------------------------------------------------------- cell construction
    def cells(self, case, L, R, C, tok, qtok):
        """yield (cell name, callable, expected exception type)"""
        bt_name, bt = bad_tables()[case["which_bad_table"]]
        lk, rk = case["L"]["key"], case["R"]["key"]
        la, ra = case["L"]["attr"], case["R"]["attr"]
        cn = case["candset"]["names"]
        nj = case["n_jobs"]

        # ---- joins
        for m in SET_M + ["OVERLAP", "EDIT_DISTANCE"]:
            fn = JOINS[m]
            ed = m == "EDIT_DISTANCE"
            base = dict(ltable=L, rtable=R, l_key_attr=lk, r_key_attr=rk, l_join_attr=la,
                        r_join_attr=ra, threshold=threshold_ok(m),
                        comp_op="<=" if ed else ">=", allow_missing=False, l_out_attrs=None,
                        r_out_attrs=None, out_sim_score=True, n_jobs=nj, show_progress=False)
            base["tokenizer"] = qtok if ed else tok
            name = m.lower() + "_join"
            muts = [("ltable-not-dataframe", {"ltable": bt}, TypeError),
                    ("rtable-not-dataframe", {"rtable": bt}, TypeError),
                    ("tokenizer-not-tokenizer", {"tokenizer": NotATokenizer()}, TypeError),
                    ("tokenizer-string", {"tokenizer": "ws"}, TypeError),
                    ("unknown-l_key_attr", {"l_key_attr": "no such"}, AssertionError),
                    ("unknown-r_key_attr", {"r_key_attr": "no such"}, AssertionError),
                    ("unknown-l_join_attr", {"l_join_attr": "no such"}, AssertionError),
                    ("unknown-r_join_attr", {"r_join_attr": "no such"}, AssertionError),
                    ("unknown-l_out_attr", {"l_out_attrs": [la, "no such"]}, AssertionError),
                    ("unknown-r_out_attr", {"r_out_attrs": ["no such"]}, AssertionError),
                    ("numeric-l_join_attr", {"l_join_attr": "zz_num"}, AssertionError),
                    ("numeric-r_join_attr", {"r_join_attr": "zz_flt"}, AssertionError),
                    ("l_key-duplicates", {"l_key_attr": "zz_dup"}, AssertionError),
                    ("r_key-duplicates", {"r_key_attr": "zz_dup"}, AssertionError),
                    ("l_key-missing", {"l_key_attr": "zz_nan"}, AssertionError),
                    ("r_key-missing", {"r_key_attr": "zz_nan"}, AssertionError),
                    ("comp_op-garbage", {"comp_op": "=>"}, AssertionError),
                    ("comp_op-other-family", {"comp_op": ">=" if ed else "<="}, AssertionError),
                    ("comp_op-ne", {"comp_op": "!="}, AssertionError)]
            if ed:
                muts.append(("tokenizer-not-qgram", {"tokenizer": tok if case["tok"]["kind"]
                                                     != "qgram" else
                                                     mk_tok({"kind": "ws", "return_set": False})},
                             AssertionError))
            for t in threshold_bad(m):
                muts.append(("threshold=%r" % t, {"threshold": t}, AssertionError))
            for mname, mut, exc in muts:
                kw = dict(base)
                kw.update(mut)
                yield ("%s/%s" % (name, mname.split("=")[0]), "%s(%s)" % (name, mname),
                       (lambda fn=fn, kw=kw: fn(**kw)), exc)

        # ---- filter constructors
        for ft in ("size", "prefix", "position", "suffix"):
            cls = FILTERS[ft]
            cname = cls.__name__
            for m in FILTER_M:
                t = m == "EDIT_DISTANCE" and qtok or tok
                yield (cname + "()/tokenizer-not-tokenizer", "%s(%s, tokenizer=object)"
                       % (cname, m), (lambda cls=cls, m=m: cls(NotATokenizer(), m,
                                                               threshold_ok(m))), TypeError)
                for thr in threshold_bad(m):
                    yield (cname + "()/threshold", "%s(%s, threshold=%r)" % (cname, m, thr),
                           (lambda cls=cls, m=m, t=t, thr=thr: cls(t, m, thr)), AssertionError)
            for bad in ("EUCLID", "JACCARD ", "", "OVERLAP_COEFFICIENT"):
                yield (cname + "()/unknown-measure", "%s(measure=%r)" % (cname, bad),
                       (lambda cls=cls, bad=bad: cls(tok, bad, 0.5)), TypeError)
            yield (cname + "()/tokenizer-not-qgram", "%s(EDIT_DISTANCE, non-qgram tokenizer)"
                   % cname, (lambda cls=cls: cls(mk_tok({"kind": "ws", "return_set": False}),
                                                 "EDIT_DISTANCE", 1)), AssertionError)
        yield ("OverlapFilter()/tokenizer-not-tokenizer", "OverlapFilter(tokenizer=object)",
               (lambda: ssj.OverlapFilter(NotATokenizer(), 1)), TypeError)
        for thr in threshold_bad("OVERLAP"):
            yield ("OverlapFilter()/threshold", "OverlapFilter(overlap_size=%r)" % thr,
                   (lambda thr=thr: ssj.OverlapFilter(tok, thr)), AssertionError)
        for op in ("<=", "<", "!=", "=>"):
            yield ("OverlapFilter()/comp_op", "OverlapFilter(comp_op=%r)" % op,
                   (lambda op=op: ssj.OverlapFilter(tok, 1, op)), AssertionError)

        # ---- filter_tables / filter_candset of valid filter objects
        for ft in ("size", "prefix", "position", "suffix", "overlap"):
            cname = FILTERS[ft].__name__
            f = ssj.OverlapFilter(tok, 1) if ft == "overlap" else FILTERS[ft](tok, "JACCARD",
                                                                              0.5)
            base = dict(ltable=L, rtable=R, l_key_attr=lk, r_key_attr=rk, l_filter_attr=la,
                        r_filter_attr=ra, l_out_attrs=None, r_out_attrs=None, n_jobs=nj,
                        show_progress=False)
            muts = [("ltable-not-dataframe", {"ltable": bt}, TypeError),
                    ("rtable-not-dataframe", {"rtable": bt}, TypeError),
                    ("unknown-l_key_attr", {"l_key_attr": "no such"}, AssertionError),
                    ("unknown-r_key_attr", {"r_key_attr": "no such"}, AssertionError),
                    ("unknown-l_filter_attr", {"l_filter_attr": "no such"}, AssertionError),
                    ("unknown-r_filter_attr", {"r_filter_attr": "no such"}, AssertionError),
                    ("unknown-l_out_attr", {"l_out_attrs": ["no such"]}, AssertionError),
                    ("unknown-r_out_attr", {"r_out_attrs": [ra, "no such"]}, AssertionError),
                    ("numeric-l_filter_attr", {"l_filter_attr": "zz_flt"}, AssertionError),
                    ("numeric-r_filter_attr", {"r_filter_attr": "zz_num"}, AssertionError),
                    ("l_key-duplicates", {"l_key_attr": "zz_dup"}, AssertionError),
                    ("r_key-duplicates", {"r_key_attr": "zz_dup"}, AssertionError),
                    ("l_key-missing", {"l_key_attr": "zz_nan"}, AssertionError),
                    ("r_key-missing", {"r_key_attr": "zz_nan"}, AssertionError)]
            for mname, mut, exc in muts:
                kw = dict(base)
                kw.update(mut)
                yield ("%s.filter_tables/%s" % (cname, mname), "%s.filter_tables(%s)"
                       % (cname, mname), (lambda f=f, kw=kw: f.filter_tables(**kw)), exc)
            cbase = dict(candset=C, candset_l_key_attr=cn[0], candset_r_key_attr=cn[1],
                         ltable=L, rtable=R, l_key_attr=lk, r_key_attr=rk, l_filter_attr=la,
                         r_filter_attr=ra, n_jobs=nj, show_progress=False)
            cmuts = [m_ for m_ in muts if "out_attr" not in m_[0]] + [
                ("candset-not-dataframe", {"candset": bt}, TypeError),
                ("unknown-candset_l_key_attr", {"candset_l_key_attr": "no such"},
                 AssertionError),
                ("unknown-candset_r_key_attr", {"candset_r_key_attr": "no such"},
                 AssertionError)]
            for mname, mut, exc in cmuts:
                kw = dict(cbase)
                kw.update(mut)
                yield ("%s.filter_candset/%s" % (cname, mname), "%s.filter_candset(%s)"
                       % (cname, mname), (lambda f=f, kw=kw: f.filter_candset(**kw)), exc)

        # ---- apply_matcher
        mbase = dict(candset=C, candset_l_key_attr=cn[0], candset_r_key_attr=cn[1], ltable=L,
                     rtable=R, l_key_attr=lk, r_key_attr=rk, l_match_attr=la, r_match_attr=ra,
                     tokenizer=tok, sim_function=simfns.get("jaccard"), threshold=0.5,
                     comp_op=">=", allow_missing=False, l_out_attrs=None, r_out_attrs=None,
                     n_jobs=nj, show_progress=False)
        mmuts = [("candset-not-dataframe", {"candset": bt}, TypeError),
                 ("ltable-not-dataframe", {"ltable": bt}, TypeError),
                 ("rtable-not-dataframe", {"rtable": bt}, TypeError),
                 ("tokenizer-not-tokenizer", {"tokenizer": NotATokenizer()}, TypeError),
                 ("unknown-candset_l_key_attr", {"candset_l_key_attr": "no such"},
                  AssertionError),
                 ("unknown-candset_r_key_attr", {"candset_r_key_attr": "no such"},
                  AssertionError),
                 ("unknown-l_key_attr", {"l_key_attr": "no such"}, AssertionError),
                 ("unknown-r_key_attr", {"r_key_attr": "no such"}, AssertionError),
                 ("unknown-l_match_attr", {"l_match_attr": "no such"}, AssertionError),
                 ("unknown-r_match_attr", {"r_match_attr": "no such"}, AssertionError),
                 ("unknown-l_out_attr", {"l_out_attrs": ["no such"]}, AssertionError),
                 ("unknown-r_out_attr", {"r_out_attrs": ["no such"]}, AssertionError),
                 ("l_key-duplicates", {"l_key_attr": "zz_dup"}, AssertionError),
                 ("r_key-duplicates", {"r_key_attr": "zz_dup"}, AssertionError),
                 ("l_key-missing", {"l_key_attr": "zz_nan"}, AssertionError),
                 ("r_key-missing", {"r_key_attr": "zz_nan"}, AssertionError),
                 ("comp_op-garbage", {"comp_op": "=>"}, AssertionError),
                 ("comp_op-garbage2", {"comp_op": "=="}, AssertionError)]
        for mname, mut, exc in mmuts:
            kw = dict(mbase)
            kw.update(mut)
            yield ("apply_matcher/%s" % mname, "apply_matcher(%s)" % mname,
                   (lambda kw=kw: ssj.apply_matcher(**kw)), exc)

        # ---- profiler
        yield ("profile_table_for_join/table-not-dataframe", "profile_table_for_join(%s)"
               % bt_name, (lambda: ssj.profile_table_for_join(bt)), TypeError)
        yield ("profile_table_for_join/unknown-profile-attr",
               "profile_table_for_join(profile_attrs=[.., 'no such'])",
               (lambda: ssj.profile_table_for_join(L, [lk, "no such"])), AssertionError)

    def check(self, case, ctx):
        L, R = canon.build_pair(case)
        C = gen.build_candset(case["candset"])
        tok = mk_tok(case["tok"])
        qtok = mk_tok({"kind": "qgram", "q": case["q"], "padding": True,
                       "return_set": case["qset"]})
        snaps = [canon.snapshot(L), canon.snapshot(R), canon.snapshot(C)]
        ts = [canon.tok_state(tok), canon.tok_state(qtok)]
        ncells = 0
        for cell, desc, call, exc in self.cells(case, L, R, C, tok, qtok):
            ncells += 1
            site = "cell=" + cell
            try:
                r = call()
            except exc:
                pass
            except Exception as e:  # noqa
                ctx.violation(site + ",kind=wrong-exception-type",
                              "%s raised %s (%s), expected %s"
                              % (desc, type(e).__name__, str(e)[:150], exc.__name__))
            else:
                ctx.violation(site + ",kind=invalid-argument-accepted",
                              "%s returned %s instead of raising %s"
                              % (desc, type(r).__name__, exc.__name__))
            if [canon.tok_state(tok), canon.tok_state(qtok)] != ts:
                ctx.violation(site + ",kind=tokenizer-changed-by-rejected-call",
                              "%s was rejected but left the tokenizer as %s (was %s)"
                              % (desc, [canon.tok_state(tok), canon.tok_state(qtok)], ts))
                tok.set_return_set(case["tok"]["return_set"])
                qtok.set_return_set(case["qset"])
            if [canon.snapshot(L), canon.snapshot(R), canon.snapshot(C)] != snaps:
                ctx.violation(site + ",kind=arguments-changed-by-rejected-call",
                              "%s was rejected but modified a table argument" % desc)
            ctx.label(cell)
        ctx.nontrivial(ncells > 0)
        ctx.label("bag-tokenizer", not case["tok"]["return_set"])


# ---------------------------------------------------------------------- valid side

SHAPES = ["zero", "one", "allmissing", "allempty", "normal"]


@st.composite
def valid_case(draw, tier):
    tokcfg = draw(gen.tokenizer_cfg(kinds=("ws", "qgram", "delim")))
    shapes = [draw(st.sampled_from(SHAPES)), draw(st.sampled_from(SHAPES))]
    dtype = draw(st.sampled_from(["obj", "strdtype", "nastring"]))
    tabs = []
    for s in shapes:
        if s == "zero":
            vals = []
        elif s == "one":
            vals = [draw(st.sampled_from(["a b", "", None, "ab"]))]
        elif s == "allmissing":
            vals = [None] * draw(st.integers(1, 4))
        elif s == "allempty":
            vals = [""] * draw(st.integers(1, 4))
        else:
            vals = draw(st.lists(st.sampled_from(["a b", "a b c", "b", "", None, "abab", "ab"]),
                                 min_size=2, max_size=5))
        n = len(vals)
        cols = [{"name": "id", "kind": "int", "values": list(range(n))},
                {"name": "val", "kind": dtype, "values": vals},
                {"name": "x", "kind": "float",
                 "values": [float("nan") if i % 2 else 0.5 for i in range(n)]}]
        tabs.append({"columns": cols, "index": list(range(n)), "key": "id", "attr": "val"})
    return {"tok": tokcfg, "L": tabs[0], "R": tabs[1], "shapes": shapes, "dtype": dtype,
            "out_sim_score": draw(st.booleans()),
            "attrs": draw(st.sampled_from([None, [], ["x"], ["val", "x"]])),
            "allow_missing": draw(st.booleans()), "allow_empty": draw(st.booleans()),
            "n_jobs": draw(st.sampled_from([1, 1, 2, -1]))}


class Valid(Component):
    name = "valid"
    kind = "hyp"
    rule = "a table with 0 rows, or all values missing / empty"

    def examples(self, tier):
        return 60 if tier == "quick" else 600

    def strategy(self, tier):
        return valid_case(tier)

    def check(self, case, ctx):
        L, R = canon.build_pair(case)
        nj = case["n_jobs"]
        at = case["attrs"]
        am, ae = case["allow_missing"], case["allow_empty"]
        sc = case["out_sim_score"]
        ctxdesc = "shapes=%r dtype=%s n_jobs=%r allow_missing=%s" % (case["shapes"],
                                                                      case["dtype"], nj, am)
        qcfg = dict(QG)
        if case["tok"]["kind"] == "qgram":
            qcfg = dict(case["tok"])

        def expect_df(name, fn, *a, **kw):
            try:
                with calls.backend(nj):
                    r = fn(*a, **kw)
            except Exception as e:  # noqa
                ctx.violation("entry=%s,kind=valid-call-rejected,type=%s"
                              % (name, type(e).__name__),
                              "%s on valid arguments (%s) raised %s: %s"
                              % (name, ctxdesc, type(e).__name__, str(e)[:200]))
                return None
            if not isinstance(r, pd.DataFrame):
                ctx.violation("entry=%s,kind=not-a-dataframe" % name,
                              "%s (%s) returned %s" % (name, ctxdesc, type(r).__name__))
                return None
            return r

        cand = None
        for m in SET_M:
            expect_df(m.lower() + "_join", JOINS[m], L, R, "id", "id", "val", "val",
                      mk_tok(case["tok"]), 0.5, ">=", ae, am, at, at, "l_", "r_", sc, nj, False)
        expect_df("overlap_join", JOINS["OVERLAP"], L, R, "id", "id", "val", "val",
                  mk_tok(case["tok"]), 1, ">=", am, at, at, "l_", "r_", sc, nj, False)
        expect_df("edit_distance_join", JOINS["EDIT_DISTANCE"], L, R, "id", "id", "val", "val",
                  1, "<=", am, at, at, "l_", "r_", sc, nj, False, mk_tok(qcfg))
        for ft in ("size", "prefix", "position", "suffix", "overlap"):
            cname = FILTERS[ft].__name__
            for m in (["OVERLAP"] if ft == "overlap" else ["JACCARD", "EDIT_DISTANCE"]):
                try:
                    if ft == "overlap":
                        f = ssj.OverlapFilter(mk_tok(case["tok"]), 1, ">=", am)
                    elif m == "EDIT_DISTANCE":
                        f = FILTERS[ft](mk_tok(dict(qcfg, return_set=False)), m, 1, ae, am)
                    else:
                        f = FILTERS[ft](mk_tok(dict(case["tok"], return_set=True)), m, 0.5, ae,
                                        am)
                except Exception as e:  # noqa
                    ctx.violation("entry=%s(),kind=valid-call-rejected,type=%s"
                                  % (cname, type(e).__name__), "%s(%s) raised %s" % (cname, m, e))
                    continue
                r = expect_df(cname + ".filter_tables", f.filter_tables, L, R, "id", "id", "val",
                              "val", at, at, n_jobs=nj, show_progress=False)
                if r is not None and cand is None:
                    cand = r
                for a in L["val"].tolist()[:2]:
                    for b in R["val"].tolist()[:2]:
                        try:
                            v = f.filter_pair(a, b)
                            if not isinstance(v, (bool, np.bool_)):
                                ctx.violation("entry=%s.filter_pair,kind=not-a-bool" % cname,
                                              "%s.filter_pair(%r, %r) returned %r"
                                              % (cname, a, b, v))
                        except Exception as e:  # noqa
                            ctx.violation("entry=%s.filter_pair,kind=valid-call-rejected,type=%s"
                                          % (cname, type(e).__name__),
                                          "%s(%s).filter_pair(%r, %r) raised %s: %s"
                                          % (cname, m, a, b, type(e).__name__, e))
                # candidate set = full cross product of the keys
                pairs = [(a, b) for a in L["id"].tolist() for b in R["id"].tolist()]
                C = pd.DataFrame({"_id": list(range(len(pairs))),
                                  "l_id": [p[0] for p in pairs], "r_id": [p[1] for p in pairs]})
                expect_df(cname + ".filter_candset", f.filter_candset, C, "l_id", "r_id", L, R,
                          "id", "id", "val", "val", n_jobs=nj, show_progress=False)
                if ft == "size" and m == "JACCARD":
                    expect_df("apply_matcher", ssj.apply_matcher, C, "l_id", "r_id", L, R, "id",
                              "id", "val", "val", mk_tok(case["tok"]), simfns.get("jaccard"),
                              0.5, ">=", am, at, at, "l_", "r_", sc, nj, False)
        for T, nm in ((L, "left"), (R, "right")):
            # a table without rows is a valid argument here too (C15: "tables of any shape
            # (no rows, ...)"); only C17's count guarantees are scoped to non-empty tables
            expect_df("profile_table_for_join", ssj.profile_table_for_join, T)
            expect_df("profile_table_for_join", ssj.profile_table_for_join, T, ["val", "id"])
        degenerate = any(s in ("zero", "allmissing", "allempty") for s in case["shapes"])
        ctx.nontrivial(degenerate)
        ctx.label("dtype=" + case["dtype"])
        for s in case["shapes"]:
            ctx.label("shape=" + s)


COMPONENTS = [Invalid(), Valid()]
