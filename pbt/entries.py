"""Uniform 'entry point' cases: any join, any filter's filter_tables / filter_candset,
apply_matcher -- one strategy, one runner, one canonical result (used by C10, C11, C12)."""
import collections

from hypothesis import strategies as st

from . import calls, canon, gen, simfns
from .env import mk_tok, ssj
from .props import c04, c05


@st.composite
def entry_case(draw, tier, entries=("join", "join", "filter_tables", "filter_candset", "matcher"),
               missing=None, self_join=None):
    e = draw(st.sampled_from(list(entries)))
    if e == "join":
        if draw(st.integers(0, 5)) == 0:
            case = draw(gen.ed_join_case(tier, missing=missing, self_join=self_join))
        else:
            case = draw(gen.set_join_case(tier, missing=missing, self_join=self_join))
    elif e in ("filter_tables", "filter_candset"):
        if draw(st.integers(0, 4)) == 0:
            case = draw(c04.ed_filter_case(tier, missing=missing, self_join=self_join))
        else:
            case = draw(c04.set_filter_case(tier, missing=missing, self_join=self_join))
        case["op"] = draw(st.sampled_from([">=", ">", "="])) if case["ftype"] == "overlap" \
            else ">="
        if case["ftype"] == "overlap":
            case["out_sim_score"] = draw(st.booleans())
    else:
        case = draw(c05.matcher_case(tier, self_join=self_join))
        case["real"] = False
        case["pad"] = 0
    case["entry"] = e
    return case


def describe(case):
    e = case["entry"]
    if e == "join":
        return "%s_join" % case["measure"].lower()
    if e == "matcher":
        return "apply_matcher(%s)" % case["fn"]
    return "%s(%s).%s" % (c04.CLS[case["ftype"]], case["measure"], e)


def site(case):
    e = case["entry"]
    if e == "join":
        return "entry=%s_join" % case["measure"].lower()
    if e == "matcher":
        return "entry=apply_matcher"
    return "entry=%s.%s" % (c04.CLS[case["ftype"]], e)


def make_tok(case):
    return mk_tok(case["tok"]) if case.get("tok") else None


def run(ctx, case, L, R, C=None, tok="fresh", n_jobs=None, real=False, filt=None):
    """Execute the entry point of `case` on the given objects; returns the DataFrame."""
    e = case["entry"]
    if tok == "fresh":
        tok = make_tok(case)
    over = {}
    if n_jobs is not None:
        over["n_jobs"] = n_jobs
    if e == "join":
        return calls.run_join(ctx, case, L, R, tok, real=real, **over)
    if e == "matcher":
        cs = case["candset"]
        nj = case["n_jobs"] if n_jobs is None else n_jobs
        with calls.backend(nj, real):
            return ctx.lib(ssj.apply_matcher, C, cs["names"][0], cs["names"][1], L, R,
                           case["L"]["key"], case["R"]["key"], case["L"]["attr"],
                           case["R"]["attr"], tok, simfns.get(case["fn"]), case["threshold"],
                           case["op"], case["allow_missing"], case["l_out"], case["r_out"],
                           case["prefix"][0], case["prefix"][1], case["out_sim_score"], nj,
                           bool(case.get("show_progress", False)))
    f = filt
    if f is None:
        fcfg = c04.fcfg_of(case)
        fcfg["op"] = case.get("op", ">=")
        f = calls.make_filter(ctx, fcfg, tok)
        if f is None:
            return None
    if e == "filter_tables":
        if case["ftype"] == "overlap":
            over["out_sim_score"] = case.get("out_sim_score", False)
        return calls.run_filter_tables(ctx, f, case, L, R, real=real, **over)
    cs = case["candset"]
    nj = case.get("cand_n_jobs", 1) if n_jobs is None else n_jobs
    return calls.run_filter_candset(ctx, f, case, C, cs["names"], L, R, nj, real=real)


def build(case):
    L, R = canon.build_pair(case)
    C = gen.build_candset(case["candset"]) if case["entry"] in ("filter_candset", "matcher") \
        else None
    return L, R, C


def result(df, case):
    """(columns, Counter of value rows without _id, list of _id values)"""
    cols = [str(c) for c in df.columns]
    rows = canon.rows_of(df)
    if "_id" in cols and cols[0] == "_id":
        ids = [r[0] for r in rows]
        if case["entry"] in ("join", "filter_tables"):
            rows = [r[1:] for r in rows]
    else:
        ids = None
    return cols, collections.Counter(rows), ids


def n_split_rows(case, L, R, C):
    """number of rows the entry splits across jobs"""
    if case["entry"] in ("filter_candset", "matcher"):
        return len(C)
    col = case["R"]["attr"]
    return int(R[col].notna().sum())
