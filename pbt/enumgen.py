"""Exhaustive enumerators E1 (worst-case size sweep), E2 (arrangement enumeration) and
E3 (short strings for edit distance) -- DESIGN 3.2.  They yield small JSON-able batch
records; the tables are rebuilt deterministically from them."""
import itertools

import pandas as pd

from . import canon, oracle

WS = {"kind": "ws", "return_set": True}


def _thresholds_for(measure, n, m, o):
    """Critical thresholds of a size triple: the similarity and its close neighbours."""
    out = set()
    for s in oracle.sim_values(measure, n, m, o):
        for t in (s, canon.nextafter(s, False), canon.nextafter(s, True), round(s, 4),
                  round(s, 4) - 1e-4, round(s, 4) + 1e-4):
            if 1e-4 <= t <= 1.0:
                out.add(float(t))
    return out


def chunks(lst, k):
    for i in range(0, len(lst), k):
        yield lst[i:i + k]


# ------------------------------------------------------------------ E1

def e1_cases(N, measures=("JACCARD", "COSINE", "DICE"), chunk=250, grid=100):
    """Batches {measure, threshold, triples}: every (n,m,o), 1<=o<=min(n,m), n,m<=N, at
    (i) its critical thresholds and (ii) every grid threshold t for which o is the smallest
    overlap that still reaches t (the only overlap a too-short prefix can lose)."""
    for measure in measures:
        by_t = {}
        for n in range(1, N + 1):
            for m in range(1, N + 1):
                prev = 0.0
                for o in range(1, min(n, m) + 1):
                    s = oracle.exact_sim(measure, n, m, o)
                    for t in _thresholds_for(measure, n, m, o):
                        if oracle.classify(measure, n, m, o, t, ">=") == "must":
                            by_t.setdefault(t, set()).add((n, m, o))
                    # grid thresholds in (s(o-1), s(o)]
                    g0 = int(prev * grid)
                    g1 = int(s * grid) + 1
                    for g in range(max(g0, 1), min(g1, grid) + 1):
                        t = g / float(grid)
                        if prev < t and oracle.classify(measure, n, m, o, t, ">=") == "must":
                            by_t.setdefault(t, set()).add((n, m, o))
                    prev = s
        for t in sorted(by_t):
            tr = sorted(by_t[t])
            for part in chunks(tr, chunk):
                yield {"measure": measure, "threshold": t, "triples": [list(x) for x in part]}


def e1_exact_cases(N, measures=("JACCARD", "COSINE", "DICE"), grid=100, chunk=120, nmin=1):
    """Wide but sparse size sweep: every (n,m,o), n,m<=N, whose similarity equals a threshold
    of the two-decimal grid *exactly* (in rational arithmetic) -- the pairs whose required
    overlap / prefix length are integers that floating point may render one ulp off."""
    for measure in measures:
        by_g = {}
        for n in range(nmin, N + 1):
            for m in range(nmin, N + 1):
                for g in range(1, grid + 1):
                    if measure == "JACCARD":
                        # o/(n+m-o) = g/grid  <=>  o = g(n+m)/(grid+g)
                        num, den = g * (n + m), grid + g
                    elif measure == "DICE":
                        # 2o/(n+m) = g/grid  <=>  o = g(n+m)/(2 grid)
                        num, den = g * (n + m), 2 * grid
                    else:
                        # o/sqrt(nm) = g/grid  <=>  (o*grid)^2 = g^2 n m
                        sq = g * g * n * m
                        r = int(round(sq ** 0.5))
                        if r * r != sq or r % grid:
                            continue
                        num, den = r // grid, 1
                    if num % den:
                        continue
                    o = num // den
                    if 1 <= o <= min(n, m):
                        by_g.setdefault(g, []).append((n, m, o))
        for g in sorted(by_g):
            t = g / float(grid)
            tr = [x for x in by_g[g] if oracle.classify(measure, x[0], x[1], x[2], t, ">=") == "must"]
            for part in chunks(tr, chunk):
                yield {"measure": measure, "threshold": t, "triples": [list(x) for x in part]}


def e1_tables(triples):
    """Left row i / right row i share o tokens of frequency 2 and carry private tokens of
    frequency 1: rarest-first ordering puts all common tokens last in both rows."""
    lv, rv = [], []
    for i, (n, m, o) in enumerate(triples):
        sh = ["%ds%02d" % (i, k) for k in range(o)]
        lv.append(" ".join(sh + ["%dx%02d" % (i, k) for k in range(n - o)]))
        rv.append(" ".join(sh + ["%dy%02d" % (i, k) for k in range(m - o)]))
    L = pd.DataFrame({"id": list(range(len(lv))), "v": pd.Series(lv, dtype=object)})
    R = pd.DataFrame({"id": list(range(len(rv))), "v": pd.Series(rv, dtype=object)})
    return L, R


# ------------------------------------------------------------------ E2

def e2_assignments(U, min_common=1):
    for u in range(1, U + 1):
        for a in itertools.product("xyb", repeat=u):
            if a.count("b") >= min_common:
                yield "".join(a)


def counts(a):
    o = a.count("b")
    return a.count("x") + o, a.count("y") + o, o


def e2_cases(U, measures=("JACCARD", "COSINE", "DICE", "OVERLAP"), chunk=200, grid=20):
    for measure in measures:
        by_t = {}
        for a in e2_assignments(U):
            n, m, o = counts(a)
            ts = set()
            if measure == "OVERLAP":
                ts.update(range(1, o + 1))
            else:
                ts.update(_thresholds_for(measure, n, m, o))
                s = oracle.exact_sim(measure, n, m, o)
                ts.update(g / float(grid) for g in range(1, grid + 1) if g / float(grid) <= s)
            for t in ts:
                if oracle.classify(measure, n, m, o, t, ">=") == "must":
                    by_t.setdefault(t, []).append(a)
        for t in sorted(by_t):
            for k, part in enumerate(chunks(by_t[t], chunk)):
                yield {"measure": measure, "threshold": t, "instances": part,
                       "filler": "left" if (k + len(part)) % 2 == 0 else "right",
                       "orient": "xl" if k % 2 == 0 else "xr"}


def e2_tables(instances, filler, orient):
    """Instance k contributes an x-row and a y-row (on opposite sides) plus a filler row
    holding every non-shared token, so every token has frequency 2 and the library's order
    is purely alphabetical = the intended arrangement.
    Returns L, R and for each instance the (lkey, rkey) of the x/y pair."""
    lrows, rrows, pairs = [], [], []
    for k, a in enumerate(instances):
        names = ["%04d_%02d" % (k, p) for p in range(len(a))]
        x = [t for t, c in zip(names, a) if c in "xb"]
        y = [t for t, c in zip(names, a) if c in "yb"]
        fill = [t for t, c in zip(names, a) if c in "xy"]
        left, right = (x, y) if orient == "xl" else (y, x)
        lk = "i%dL" % k
        rk = "i%dR" % k
        lrows.append((lk, " ".join(left)))
        rrows.append((rk, " ".join(right)))
        pairs.append((lk, rk))
        if fill:
            if filler == "left":
                lrows.append(("f%d" % k, " ".join(fill)))
            else:
                rrows.append(("f%d" % k, " ".join(fill)))
    L = pd.DataFrame({"id": pd.Series([r[0] for r in lrows], dtype=object),
                      "v": pd.Series([r[1] for r in lrows], dtype=object)})
    R = pd.DataFrame({"id": pd.Series([r[0] for r in rrows], dtype=object),
                      "v": pd.Series([r[1] for r in rrows], dtype=object)})
    return L, R, pairs


# ------------------------------------------------------------------ E3

def e3_strings(alphabet, L):
    out = [""]
    for k in range(1, L + 1):
        out.extend("".join(p) for p in itertools.product(alphabet, repeat=k))
    return out
