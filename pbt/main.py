"""Entry point: python -m pbt.main <ID> [--tier quick|thorough] [--replay FILE]
                                       [--only comp[,comp]] [--worker comp shard nshards out]
Exit 0: property held on everything explored; 1: VIOLATION line printed; 2: harness error.
"""
import importlib
import os
import sys
import traceback


def main(argv):
    if not argv:
        print(__doc__)
        return 2
    prop = argv[0].upper()
    tier = os.environ.get("VERIF_TIER") or "quick"
    replay = None
    only = None
    worker = None
    i = 1
    while i < len(argv):
        a = argv[i]
        if a == "--tier":
            tier = argv[i + 1]
            i += 2
        elif a == "--replay":
            replay = argv[i + 1]
            i += 2
        elif a == "--only":
            only = set(argv[i + 1].split(","))
            i += 2
        elif a == "--worker":
            worker = argv[i + 1:i + 5]
            i += 5
        else:
            print("unknown argument " + a)
            return 2
    if tier not in ("quick", "thorough"):
        print("unknown tier " + tier)
        return 2
    try:
        from . import runner
        mod = importlib.import_module("pbt.props." + prop.lower())
    except SystemExit:
        raise
    except Exception:
        print("HARNESS-ERROR: cannot load check for %s\n%s" % (prop, traceback.format_exc()))
        return 2
    comps = dict((c.name, c) for c in mod.COMPONENTS)
    if worker is not None:
        cname, shard, nshards, out = worker
        runner.run_worker(prop, comps[cname], tier, int(shard), int(nshards), out)
        return 0
    if replay is not None:
        try:
            status, text = runner.replay_file(prop, comps, replay)
        except Exception:
            print("HARNESS-ERROR: replay failed\n" + traceback.format_exc())
            return 2
        if status == "violation":
            print("VIOLATION property=%s replay=%s" % (prop, replay))
            print("  detail: " + text)
            return 1
        if status == "known":
            known = runner.load_known(prop)
            sig = text.split(" :: ")[0]
            print("KNOWN-FINDING: property=%s %s (%s)" % (prop, known.get(sig, sig), text))
            return 0
        if status == "error":
            print("HARNESS-ERROR: " + text)
            return 2
        print("%s replay ok: %s" % (prop, replay))
        return 0
    return runner.run_property(mod, tier, only)


if __name__ == "__main__":
    sys.exit(main(sys.argv[1:]))
