"""Case records <-> pandas objects, canonical values, deep snapshots, digests."""
import hashlib
import json
import math

import numpy as np
import pandas as pd

NA = "<NA>"


def cv(v):
    """Canonical, hashable rendering of a cell value (NaN/None/NaT collapse to NA)."""
    if v is None:
        return NA
    if isinstance(v, (bool, np.bool_)):
        return bool(v)
    if isinstance(v, (int, np.integer)):
        return int(v)
    if isinstance(v, (float, np.floating)):
        f = float(v)
        if f != f:
            return NA
        if f.is_integer() and abs(f) < 2 ** 53:
            return int(f)
        return f
    if isinstance(v, (pd.Timestamp, np.datetime64)):
        t = pd.Timestamp(v)
        if t is pd.NaT:
            return NA
        return "ts:" + t.isoformat()
    if v is pd.NaT or v is pd.NA:
        return NA
    if isinstance(v, str):
        return v
    try:
        if pd.isnull(v):
            return NA
    except Exception:
        pass
    return repr(v)


def is_na(v):
    return cv(v) == NA


def rows_of(df):
    """List of canonical value tuples, one per row, in row order."""
    cols = [df.iloc[:, k].tolist() for k in range(df.shape[1])]
    return [tuple(cv(c[i]) for c in cols) for i in range(len(df))]


def col_values(df, name):
    """Canonical values of a column addressed by name (first match)."""
    k = list(df.columns).index(name)
    return [cv(v) for v in df.iloc[:, k].tolist()]


# ------------------------------------------------------------------ table records

def build_series(values, kind):
    if kind == "int":
        return pd.Series(values, dtype="int64")
    if kind == "float":
        return pd.Series([float("nan") if v is None else v for v in values], dtype="float64")
    if kind == "bool":
        return pd.Series(values, dtype=bool)
    if kind == "obj":
        return pd.Series(values, dtype=object)
    if kind == "strdtype":
        return pd.Series(values, dtype="str")
    if kind == "nastring":
        # the nullable pandas string dtype (missing values are pd.NA)
        return pd.Series(values, dtype="string")
    if kind == "datetime":
        return pd.Series([pd.NaT if v is None else pd.Timestamp(v) for v in values],
                         dtype="datetime64[ns]")
    raise ValueError("unknown column kind %r" % (kind,))


def build_table(rec):
    """DataFrame from a table record {columns:[{name,kind,values}], index:[...]}"""
    data = {}
    names = []
    for c in rec["columns"]:
        names.append(c["name"])
        data[c["name"]] = build_series(c["values"], c["kind"])
    df = pd.DataFrame(data, columns=names)
    idx = rec.get("index")
    if idx is not None and len(idx) == len(df):
        df.index = build_index(idx, rec.get("index_name"))
    return df


def build_index(labels, name=None):
    """Index from JSON-able labels: lists become MultiIndex tuples, 'ts:...' strings a
    DatetimeIndex, anything else a plain Index."""
    if labels and all(isinstance(x, (list, tuple)) for x in labels):
        ix = pd.MultiIndex.from_tuples([tuple(x) for x in labels])
        if name is not None:
            ix.names = [name, None] if ix.nlevels == 2 else [name] + [None] * (ix.nlevels - 1)
        return ix
    if labels and all(isinstance(x, str) and x.startswith("ts:") for x in labels):
        return pd.DatetimeIndex([pd.Timestamp(x[3:]) for x in labels], name=name)
    return pd.Index(labels, name=name)


def build_pair(case):
    """(L, R) DataFrames of a case.  A right table record flagged `same_object` (self-join)
    that still describes the same table as the left record yields the very same object."""
    L = build_table(case["L"])
    lr, rr = case["L"], case["R"]
    if (rr.get("same_object") or lr.get("same_object")) and \
            dumps([lr["columns"], lr.get("index")]) == dumps([rr["columns"], rr.get("index")]):
        return L, L
    return L, build_table(case["R"])


def table_column(rec, name):
    for c in rec["columns"]:
        if c["name"] == name:
            return c
    raise KeyError(name)


def table_len(rec):
    return len(rec["columns"][0]["values"]) if rec["columns"] else 0


def snapshot(obj):
    """Deep, comparable snapshot of a DataFrame / Series (values, dtypes, columns, index)."""
    if isinstance(obj, pd.DataFrame):
        return ("df", [str(c) for c in obj.columns], [str(d) for d in obj.dtypes],
                [cv(i) for i in obj.index.tolist()], str(obj.index.dtype),
                [[_sv(v) for v in obj.iloc[:, k].tolist()] for k in range(obj.shape[1])])
    if isinstance(obj, pd.Series):
        return ("ser", str(obj.name), str(obj.dtype), [cv(i) for i in obj.index.tolist()],
                [_sv(v) for v in obj.tolist()])
    return ("other", repr(obj))


def _sv(v):
    # snapshot value: like cv but keeps None and NaN apart and int apart from float
    if v is None:
        return "<None>"
    if isinstance(v, (float, np.floating)) and v != v:
        return "<NaN>"
    if isinstance(v, (bool, np.bool_)):
        return ("b", bool(v))
    if isinstance(v, (int, np.integer)):
        return ("i", int(v))
    if isinstance(v, (float, np.floating)):
        return ("f", float(v))
    return cv(v)


def tok_state(tok):
    """Comparable rendering of a tokenizer's configuration."""
    out = {}
    for k, v in vars(tok).items():
        if isinstance(v, (set, frozenset)):
            v = sorted(v)
        elif hasattr(v, "pattern"):
            v = v.pattern
        out[k] = v
    return json.dumps(out, sort_keys=True, default=repr)


# ------------------------------------------------------------------ json / digests

def _default(o):
    if isinstance(o, (np.integer,)):
        return int(o)
    if isinstance(o, (np.floating,)):
        return float(o)
    if isinstance(o, (np.bool_,)):
        return bool(o)
    if isinstance(o, (set, frozenset)):
        return sorted(o)
    if isinstance(o, tuple):
        return list(o)
    return repr(o)


def dumps(obj, **kw):
    return json.dumps(obj, default=_default, sort_keys=True, **kw)


def digest(obj):
    return hashlib.sha1(dumps(obj).encode("utf-8", "surrogatepass")).hexdigest()[:16]


def case_size(case):
    try:
        return len(dumps(case))
    except Exception:
        return 0


def nextafter(x, up):
    return float(np.nextafter(x, math.inf if up else -math.inf))
