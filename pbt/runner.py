"""Shard pool, Hypothesis driving, evidence, known findings, replay.

A *component* is one executable check of a property over one generator:
  kind 'hyp'      : strategy(tier) -> Hypothesis strategy of JSON-able case records
  kind 'enum'     : cases(tier) -> iterable of case records (sharded by index)
  kind 'stateful' : machine(tier, ctx) -> RuleBasedStateMachine subclass whose instances
                    keep a JSON-able .history; replayed by run_history(history, ctx)
and check(case, ctx) -> None, which reports through ctx:
  ctx.violation(sig, msg)   raise (or count, if `sig` is an open known finding)
  ctx.nontrivial(flag), ctx.label(name)
"""
import collections
import json
import os
import subprocess
import sys
import time
import traceback

from . import canon
from .env import SEED, VERIF

WORK = os.path.join(VERIF, ".work")
REPLAY_OUT = os.path.join(VERIF, "replay_out")
KNOWN_FILE = os.path.join(VERIF, "known_findings.txt")
NPROC = int(os.environ.get("VERIF_NPROC", "16"))


class Violation(Exception):
    def __init__(self, sig, msg):
        Exception.__init__(self, "%s :: %s" % (sig, msg))
        self.sig = sig
        self.msg = msg


class HarnessError(Exception):
    pass


def load_known(prop):
    """open findings for a property: {signature: text}"""
    out = {}
    if not os.path.exists(KNOWN_FILE):
        return out
    for line in open(KNOWN_FILE, encoding="utf-8"):
        line = line.strip()
        if not line.startswith("open:"):
            continue
        body = line[len("open:"):].strip()
        head, _, text = body.partition("::")
        fields = dict(f.split("=", 1) for f in head.split() if "=" in f)
        if fields.get("property") == prop and "match" in fields:
            out[fields["match"]] = text.strip()
    return out


_KNOWN_INPUTS = {}
_DUMP = set() if os.environ.get("VERIF_DUMP_KNOWN_INPUTS") else None


_TIER = [None]


def known_inputs(prop):
    """Recorded input digests for the property's open findings in the current tier's
    enumerations (known_inputs/<prop>.<tier>.keys), or None when nothing is recorded for the
    tier (the finding is then matched by signature only).  Outside a tier run (replay) the
    union of all recorded tiers is used."""
    tier = _TIER[0]
    k = (prop, tier)
    if k not in _KNOWN_INPUTS:
        tiers = [tier] if tier else ["quick", "thorough"]
        acc = None
        for t in tiers:
            path = os.path.join(VERIF, "known_inputs", "%s.%s.keys" % (prop, t))
            if os.path.exists(path):
                acc = (acc or set()) | set(open(path).read().split())
        _KNOWN_INPUTS[k] = acc
    return _KNOWN_INPUTS[k]


class Ctx(object):
    """Per-case reporting context handed to check functions."""

    def __init__(self, prop, known):
        self.prop = prop
        self.known = known
        self.reset()

    def reset(self):
        self.is_nontrivial = False
        self.labels = []
        self.known_hits = []
        self.checked = 0

    def violation(self, sig, msg, key=None):
        """`key` names the specific failing input where the generator is an enumeration; a
        known finding then covers only the inputs recorded for it (known_inputs/<prop>.keys),
        so that a *new* failing input of the same kind is still reported."""
        if sig in self.known:
            if key is not None:
                h = canon.digest(key)[:12]
                if _DUMP is not None:
                    _DUMP.add(h)
                base = known_inputs(self.prop)
                if base is not None and h not in base and _DUMP is None:
                    raise Violation(sig + ",input=not-recorded",
                                    msg + " [the known finding %r is recorded for specific inputs "
                                    "of this enumeration and this input is not among them]" % sig)
            self.known_hits.append((sig, msg))
            return
        raise Violation(sig, msg)

    def nontrivial(self, flag=True):
        if flag:
            self.is_nontrivial = True

    def label(self, name, flag=True):
        if flag:
            self.labels.append(name)

    def lib(self, fn, *a, **kw):
        """Call into the library; an exception on a valid call is a violation
        (no output exists, so no listed guarantee about the output can hold)."""
        try:
            return fn(*a, **kw)
        except Violation:
            raise
        except Exception as e:  # noqa
            tb = traceback.extract_tb(sys.exc_info()[2])
            site = "?"
            for fr in reversed(tb):
                if "py_stringsimjoin" in fr.filename:
                    site = "%s:%s" % (os.path.basename(fr.filename), fr.name)
                    break
            name = getattr(fn, "__name__", None) or getattr(fn, "__qualname__", repr(fn))
            self.violation("kind=exception,type=%s,site=%s" % (type(e).__name__, site),
                           "valid call %s raised %s: %s" % (name, type(e).__name__, e))
            return None


class Component(object):
    kind = "hyp"
    name = "?"
    rule = ""
    exhaustive = False

    def examples(self, tier):
        return 100

    def shards(self, tier):
        return 8 if tier == "quick" else 16

    def budget_s(self, tier):
        return 150 if tier == "quick" else 1500

    def shrink_case(self, case, ctx):
        return case


# ------------------------------------------------------------------------- worker

class Tally(object):
    def __init__(self):
        self.evaluations = 0
        self.nontrivial = {}
        self.labels = collections.Counter()
        self.samples = []
        self.big = None
        self.known = {}
        self.budget_exhausted = False
        self.skipped = 0

    def record(self, case, ctx, keep_case=True):
        self.evaluations += 1
        for l in ctx.labels:
            self.labels[l] += 1
        seen = set()
        for sig, msg in ctx.known_hits:
            if sig in seen:
                continue
            seen.add(sig)
            k = self.known.setdefault(sig, {"count": 0, "example": msg})
            k["count"] += 1
        if ctx.is_nontrivial:
            d = canon.digest(case)
            if d not in self.nontrivial:
                self.nontrivial[d] = 1
                if keep_case:
                    sz = canon.case_size(case)
                    if len(self.samples) < 2 and sz < 6000:
                        self.samples.append(case)
                    elif sz < 20000 and (self.big is None or sz > self.big[0]):
                        self.big = (sz, case)

    def dump(self):
        samples = list(self.samples)
        if self.big is not None and self.big[1] not in samples:
            samples.append(self.big[1])
        return {"evaluations": self.evaluations,
                "nontrivial": sorted(self.nontrivial),
                "labels": dict(self.labels), "samples": samples, "known": self.known,
                "budget_exhausted": self.budget_exhausted, "skipped": self.skipped}


def derive_seed(prop, comp, shard):
    h = canon.digest([prop, comp, shard, SEED])
    return int(h, 16) % (2 ** 62)


def run_worker(prop, comp, tier, shard, nshards, outfile):
    t0 = time.time()
    _TIER[0] = tier
    known = load_known(prop)
    ctx = Ctx(prop, known)
    tally = Tally()
    out = {"component": comp.name, "shard": shard, "violation": None, "error": None}
    deadline = t0 + comp.budget_s(tier)
    try:
        if comp.kind == "hyp":
            viol = _run_hyp(prop, comp, tier, shard, nshards, ctx, tally, deadline)
        elif comp.kind == "enum":
            viol = _run_enum(prop, comp, tier, shard, nshards, ctx, tally, deadline)
        elif comp.kind == "stateful":
            viol = _run_stateful(prop, comp, tier, shard, nshards, ctx, tally, deadline)
        else:
            raise HarnessError("unknown component kind " + comp.kind)
        out["violation"] = viol
    except Exception:  # harness error
        out["error"] = traceback.format_exc()
    out.update(tally.dump())
    if _DUMP is not None:
        with open(os.environ["VERIF_DUMP_KNOWN_INPUTS"] + ".%d" % os.getpid(), "w") as f:
            f.write("\n".join(sorted(_DUMP)) + "\n")
    out["wall_s"] = round(time.time() - t0, 2)
    with open(outfile, "w", encoding="utf-8") as f:
        f.write(canon.dumps(out))


def _run_hyp(prop, comp, tier, shard, nshards, ctx, tally, deadline):
    import hypothesis
    from hypothesis import HealthCheck, Phase, Verbosity, given, settings
    n = comp.examples(tier)
    state = {"last_fail": None}
    strat = comp.strategy(tier)
    shrink_budget = 90 if tier == "quick" else 300
    if os.environ.get("VERIF_SHRINK_S"):
        # sensitivity runs over many broken trees only need the verdict, not a minimal case
        shrink_budget = float(os.environ["VERIF_SHRINK_S"])

    @hypothesis.seed(derive_seed(prop, comp.name, shard))
    @settings(max_examples=n, database=None, deadline=None, derandomize=False,
              report_multiple_bugs=False, print_blob=False, verbosity=Verbosity.quiet,
              phases=[Phase.generate, Phase.shrink],
              suppress_health_check=[HealthCheck.too_slow, HealthCheck.data_too_large,
                                     HealthCheck.large_base_example,
                                     HealthCheck.filter_too_much])
    @given(strat)
    def test(case):
        if state["last_fail"] is None and time.time() > deadline:
            tally.budget_exhausted = True
            tally.skipped += 1
            return
        if state["last_fail"] is not None and time.time() > state["fail_at"] + shrink_budget:
            # shrinking budget used up: only the current best failing case is still executed
            # (Hypothesis replays it at the end); every other candidate counts as passing
            if canon.digest(case) != state["best"]:
                return
        ctx.reset()
        try:
            comp.check(case, ctx)
        except Violation as v:
            if state["last_fail"] is None:
                state["fail_at"] = time.time()
            state["last_fail"] = (case, v)
            state["best"] = canon.digest(case)
            raise
        tally.record(case, ctx)

    try:
        test()
    except Violation:
        case, v = state["last_fail"]
        return {"sig": v.sig, "msg": v.msg, "case": case}
    return None


def _run_enum(prop, comp, tier, shard, nshards, ctx, tally, deadline):
    for idx, case in enumerate(comp.cases(tier)):
        if idx % nshards != shard:
            continue
        if time.time() > deadline:
            tally.budget_exhausted = True
            tally.skipped += 1
            continue
        ctx.reset()
        try:
            comp.check(case, ctx)
        except Violation as v:
            small = case
            try:
                small = comp.shrink_case(case, Ctx(prop, ctx.known))
            except Exception:
                small = case
            return {"sig": v.sig, "msg": v.msg, "case": small}
        tally.record(case, ctx)
    return None


def _run_stateful(prop, comp, tier, shard, nshards, ctx, tally, deadline):
    import hypothesis
    from hypothesis import HealthCheck, Phase, Verbosity, settings
    from hypothesis.stateful import run_state_machine_as_test
    state = {"last_fail": None}
    machine = comp.machine(tier, ctx, tally, state, deadline)
    st = settings(max_examples=comp.examples(tier), stateful_step_count=comp.steps(tier),
                  database=None, deadline=None, derandomize=False, report_multiple_bugs=False,
                  print_blob=False, verbosity=Verbosity.quiet, phases=[Phase.generate, Phase.shrink],
                  suppress_health_check=list(HealthCheck))
    try:
        run_state_machine_as_test(
            hypothesis.seed(derive_seed(prop, comp.name, shard))(machine), settings=st)
    except Violation:
        case, v = state["last_fail"]
        return {"sig": v.sig, "msg": v.msg, "case": case}
    return None


# ------------------------------------------------------------------------- parent

def write_replay(prop, comp_name, viol):
    os.makedirs(REPLAY_OUT, exist_ok=True)
    rec = {"property": prop, "component": comp_name, "sig": viol["sig"], "msg": viol["msg"],
           "case": viol["case"]}
    path = os.path.join(REPLAY_OUT, "%s-%s-%s.json" % (prop, comp_name, canon.digest(rec)))
    with open(path, "w", encoding="utf-8") as f:
        f.write(canon.dumps(rec, indent=1))
    return path


def replay_file(prop, components, path, quiet=False):
    """Re-execute a saved case without Hypothesis. Returns (status, text)."""
    rec = json.load(open(path, encoding="utf-8"))
    comp = components.get(rec.get("component"))
    if comp is None:
        return "error", "unknown component %r in %s" % (rec.get("component"), path)
    ctx = Ctx(prop, load_known(prop))
    try:
        if comp.kind == "stateful":
            comp.run_history(rec["case"], ctx)
        else:
            comp.check(rec["case"], ctx)
    except Violation as v:
        return "violation", "%s :: %s" % (v.sig, v.msg)
    if ctx.known_hits:
        return "known", "; ".join("%s :: %s" % h for h in ctx.known_hits)
    return "ok", ""


def run_property(mod, tier, only=None):
    """Parent: fork shard workers for every component, merge, write evidence."""
    t0 = time.time()
    prop = mod.PROPERTY
    comps = [c for c in mod.COMPONENTS if (only is None or c.name in only)]
    os.makedirs(WORK, exist_ok=True)
    run_id = "%s-%d-%d" % (prop, os.getpid(), int(t0))
    jobs = []
    for c in comps:
        ns = c.shards(tier)
        for s in range(ns):
            out = os.path.join(WORK, "%s-%s-%d.json" % (run_id, c.name, s))
            jobs.append((c, s, ns, out))
    known = load_known(prop)
    violations = []   # (component, viol)
    errors = []
    known_hits = {}

    # tier 0: committed regression inputs (seconds)
    comp_by_name = dict((c.name, c) for c in mod.COMPONENTS)
    rdir = os.path.join(VERIF, "replay", prop)
    replayed = 0
    if os.path.isdir(rdir) and only is None:
        for fn in sorted(os.listdir(rdir)):
            if not fn.endswith(".json"):
                continue
            p = os.path.join(rdir, fn)
            try:
                status, text = replay_file(prop, comp_by_name, p)
            except Exception:
                status, text = "error", traceback.format_exc()
            replayed += 1
            if status == "violation":
                violations.append(("replay", {"path": os.path.relpath(p, VERIF), "sig": text,
                                              "msg": text, "case": None}))
            elif status == "known":
                sig = text.split(" :: ")[0]
                k = known_hits.setdefault(sig, {"count": 0, "example": text})
                k["count"] += 1
            elif status == "error":
                errors.append("replay %s: %s" % (fn, text))

    running = []
    pending = list(jobs)
    results = []
    env = dict(os.environ)
    while pending or running:
        while pending and len(running) < NPROC:
            c, s, ns, out = pending.pop(0)
            cmd = [sys.executable, "-m", "pbt.main", prop, "--tier", tier, "--worker",
                   c.name, str(s), str(ns), out]
            # worker output goes to a file, never to an undrained pipe (the library prints
            # progress bars when show_progress is on; a full pipe would block the worker)
            logf = open(out + ".log", "wb")
            p = subprocess.Popen(cmd, cwd=VERIF, env=env, stdout=logf, stderr=subprocess.STDOUT)
            logf.close()
            p.started_at = time.time()
            running.append((p, c, s, out))
        time.sleep(0.05)
        still = []
        for p, c, s, out in running:
            if p.poll() is None:
                # watchdog: a shard that runs far beyond its own budget is stuck (harness
                # problem, reported as such -- never as a violation)
                if time.time() - p.started_at > 2 * c.budget_s(tier) + 600:
                    p.kill()
                    p.wait()
                else:
                    still.append((p, c, s, out))
                    continue
            text = ""
            try:
                with open(out + ".log", "rb") as lf:
                    lf.seek(0, 2)
                    size = lf.tell()
                    lf.seek(max(0, size - 4000))
                    text = lf.read().decode("utf-8", "replace")
                os.remove(out + ".log")
            except OSError:
                pass
            if os.path.exists(out):
                r = json.load(open(out, encoding="utf-8"))
                os.remove(out)
                results.append(r)
                if r.get("error"):
                    errors.append("%s[%d]: %s" % (c.name, s, r["error"]))
                if r.get("violation") and os.environ.get("VERIF_FAILFAST"):
                    # sensitivity runs over many broken trees only need the verdict: stop the
                    # remaining shards as soon as one shard has reported a violation
                    pending = []
                    for q, _c, _s, o in still + [x for x in running if x[0].poll() is None]:
                        try:
                            q.kill()
                            q.wait()
                        except OSError:
                            pass
                        for fn in (o, o + ".log"):
                            try:
                                os.remove(fn)
                            except OSError:
                                pass
                    still = []
                    break
            else:
                errors.append("%s[%d]: worker died (rc=%s): %s" % (c.name, s, p.returncode,
                                                                   text[-2000:]))
        running = still

    # merge
    per_comp = {}
    evaluations = 0
    nontrivial = set()
    labels = collections.Counter()
    samples = []
    budget_exhausted = False
    for r in results:
        pc = per_comp.setdefault(r["component"], {"evaluations": 0, "nontrivial": set(),
                                                  "budget_exhausted": False, "skipped": 0,
                                                  "shards": 0})
        pc["evaluations"] += r["evaluations"]
        pc["nontrivial"].update(r["nontrivial"])
        pc["budget_exhausted"] = pc["budget_exhausted"] or r["budget_exhausted"]
        pc["skipped"] += r.get("skipped", 0)
        pc["shards"] += 1
        evaluations += r["evaluations"]
        nontrivial.update(r["component"] + ":" + d for d in r["nontrivial"])
        labels.update(r["labels"])
        budget_exhausted = budget_exhausted or r["budget_exhausted"]
        for sig, k in r["known"].items():
            kk = known_hits.setdefault(sig, {"count": 0, "example": k["example"]})
            kk["count"] += k["count"]
        if r["violation"]:
            violations.append((r["component"], r["violation"]))
    # samples: a few per component, bounded
    seen_comp = collections.Counter()
    for r in sorted(results, key=lambda r: (r["component"], r["shard"])):
        for s in r["samples"]:
            if seen_comp[r["component"]] < 2:
                seen_comp[r["component"]] += 1
                samples.append({"component": r["component"], "case": s})

    comp_cov = {}
    for c in comps:
        pc = per_comp.get(c.name)
        if pc is None:
            continue
        comp_cov[c.name] = {"kind": c.kind, "evaluations": pc["evaluations"],
                            "distinct_nontrivial": len(pc["nontrivial"]),
                            "exhaustive": bool(c.exhaustive and not pc["budget_exhausted"]),
                            "budget_exhausted": pc["budget_exhausted"],
                            "skipped_after_budget": pc["skipped"],
                            "shards": pc["shards"], "rule": c.rule,
                            "bounds": c.bounds(tier) if hasattr(c, "bounds") else None}

    out_lines = []
    rc = 0
    viol_paths = []
    seen_sigs = {}
    for comp_name, v in sorted(violations, key=lambda cv_: canon.case_size(cv_[1].get("case"))):
        if v["sig"] in seen_sigs:
            seen_sigs[v["sig"]] += 1
            continue
        seen_sigs[v["sig"]] = 1
        if comp_name == "replay":
            path = v["path"]
        else:
            path = os.path.relpath(write_replay(prop, comp_name, v), VERIF)
        viol_paths.append(path)
        out_lines.append("VIOLATION property=%s replay=%s" % (prop, path))
        out_lines.append("  detail: [%s] %s :: %s" % (comp_name, v["sig"], v["msg"][:600]))
        rc = 1
    for sig, cnt in seen_sigs.items():
        if cnt > 1:
            out_lines.append("  note: %d shards reported %s (smallest case kept)" % (cnt, sig))
    for sig, k in sorted(known_hits.items()):
        out_lines.append("KNOWN-FINDING: property=%s %s (%s; matched %d generated cases this run)"
                         % (prop, known.get(sig, sig), sig, k["count"]))
    if errors and rc == 0:
        rc = 2

    wall = round(time.time() - t0, 2)
    if not samples:
        samples = [{"note": "no non-trivial sample recorded"}]
    ev = {
        "property_id": prop,
        "tier": tier,
        "seed": SEED,
        "level": "exploration",
        "coverage": {
            "evaluations": evaluations,
            "distinct_nontrivial": len(nontrivial),
            "rule": getattr(mod, "RULE", ""),
            "samples": samples,
            "exhaustive": bool(comp_cov) and all(v["exhaustive"] for v in comp_cov.values()),
            "components": comp_cov,
            "class_histogram": dict(sorted(labels.items())),
            "known_findings_matched": dict((s, k["count"]) for s, k in known_hits.items()),
            "committed_replays_run": replayed,
            "budget_exhausted": budget_exhausted,
            "repo": os.environ.get("VERIF_REPO", "/repo"),
        },
        "assumptions": list(getattr(mod, "ASSUMPTIONS", [])),
        "wall_s": wall,
        "violations": len(violations),
    }
    if only is None and os.environ.get("VERIF_NO_EVIDENCE") != "1":
        os.makedirs(os.path.join(VERIF, "evidence"), exist_ok=True)
        with open(os.path.join(VERIF, "evidence", prop + ".json"), "w", encoding="utf-8") as f:
            f.write(canon.dumps(ev, indent=1))
    for l in out_lines:
        print(l)
    for e in errors:
        print("HARNESS-ERROR: " + e.strip().replace("\n", "\n    "))
    print("%s tier=%s seed=%d evaluations=%d distinct_nontrivial=%d violations=%d known=%d "
          "wall=%.1fs%s" % (prop, tier, SEED, evaluations, len(nontrivial), len(violations),
                            len(known_hits), wall,
                            " (budget exhausted: partial)" if budget_exhausted else ""))
    for name, cc in comp_cov.items():
        print("   %-22s eval=%-7d nontrivial=%-7d%s%s" % (
            name, cc["evaluations"], cc["distinct_nontrivial"],
            " exhaustive" if cc["exhaustive"] else "",
            " BUDGET" if cc["budget_exhausted"] else ""))
    return rc
