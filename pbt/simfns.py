"""Similarity functions handed to apply_matcher (bound methods, module-level function,
lambda, functools.partial).  Importable by name so that real loky workers can unpickle them."""
import functools

from py_stringmatching.similarity_measure.cosine import Cosine
from py_stringmatching.similarity_measure.dice import Dice
from py_stringmatching.similarity_measure.jaccard import Jaccard
from py_stringmatching.similarity_measure.jaro import Jaro
from py_stringmatching.similarity_measure.levenshtein import Levenshtein
from py_stringmatching.similarity_measure.overlap_coefficient import OverlapCoefficient


def common_count(a, b):
    """module-level function: number of distinct common elements (tokens or characters)"""
    return len(set(a) & set(b))


def _weighted(a, b, w=1.0):
    return w * len(a) - len(b)


LEN_DIFF = lambda a, b: abs(len(a) - len(b))  # noqa: E731

TOKEN_FNS = ["jaccard", "cosine", "dice", "overlap_coefficient", "common_count", "lambda",
             "partial"]
STRING_FNS = ["lev", "jaro", "common_count", "lambda", "partial"]


def get(name):
    if name == "jaccard":
        return Jaccard().get_raw_score
    if name == "cosine":
        return Cosine().get_raw_score
    if name == "dice":
        return Dice().get_raw_score
    if name == "overlap_coefficient":
        return OverlapCoefficient().get_raw_score
    if name == "lev":
        return Levenshtein().get_raw_score
    if name == "jaro":
        return Jaro().get_raw_score
    if name == "common_count":
        return common_count
    if name == "lambda":
        return LEN_DIFF
    if name == "partial":
        return functools.partial(_weighted, w=0.5)
    raise ValueError(name)
