"""Persistent helper process for C10(e): runs entry-point cases shipped as JSON lines and
ships canonical results back.  Started with a different PYTHONHASHSEED than the worker."""
import json
import sys


def main():
    from . import canon, entries
    from .runner import Ctx, Violation
    out = sys.stdout
    for line in sys.stdin:
        line = line.strip()
        if not line:
            continue
        try:
            case = json.loads(line)
            ctx = Ctx("C10", {})
            L, R, C = entries.build(case)
            try:
                import contextlib
                with contextlib.redirect_stdout(sys.stderr):   # stdout is the protocol channel
                    df = entries.run(ctx, case, L, R, C, n_jobs=1)
            except Violation as v:
                out.write(canon.dumps({"violation": str(v)}) + "\n")
                out.flush()
                continue
            cols, rows, ids = entries.result(df, case)
            res = {"cols": cols, "rows": sorted(([list(r), c] for r, c in rows.items()),
                                                key=repr), "ids": ids}
            out.write(canon.dumps(res) + "\n")
        except Exception as e:  # noqa
            import traceback
            out.write(canon.dumps({"error": traceback.format_exc()}) + "\n")
        out.flush()


if __name__ == "__main__":
    main()
