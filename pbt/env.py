"""Environment: import the working tree under test and expose common handles.

The package is imported from $VERIF_REPO (default /repo) which the launcher puts
first on PYTHONPATH; nothing is built (the package is pure Python here).
"""
import os
import sys
import warnings

warnings.filterwarnings("ignore")

REPO = os.environ.get("VERIF_REPO", "/repo")
VERIF = os.path.dirname(os.path.dirname(os.path.abspath(__file__)))
if REPO not in sys.path[:2]:
    sys.path.insert(0, REPO)

SEED = int(os.environ.get("VERIF_SEED", "1") or "1")

import numpy as np  # noqa: E402
import pandas as pd  # noqa: E402

import py_stringsimjoin as ssj  # noqa: E402

_pkg_file = os.path.realpath(ssj.__file__)
if not _pkg_file.startswith(os.path.realpath(REPO) + os.sep):
    sys.stderr.write("HARNESS-ERROR: py_stringsimjoin imported from %s, not from %s\n"
                     % (_pkg_file, REPO))
    sys.exit(2)

# The package's own switch: without the Cython extensions (absent here) the public
# wrappers dispatch to the *_py implementations the properties anchor in.
ssj.__use_cython__ = False

from py_stringmatching.tokenizer.alphabetic_tokenizer import AlphabeticTokenizer  # noqa: E402
from py_stringmatching.tokenizer.alphanumeric_tokenizer import AlphanumericTokenizer  # noqa: E402
from py_stringmatching.tokenizer.delimiter_tokenizer import DelimiterTokenizer  # noqa: E402
from py_stringmatching.tokenizer.qgram_tokenizer import QgramTokenizer  # noqa: E402
from py_stringmatching.tokenizer.whitespace_tokenizer import WhitespaceTokenizer  # noqa: E402


def mk_tok(cfg):
    """Fresh tokenizer object from a JSON-able configuration."""
    k = cfg["kind"]
    rs = bool(cfg.get("return_set", True))
    if k == "ws":
        return WhitespaceTokenizer(return_set=rs)
    if k == "delim":
        return DelimiterTokenizer(delim_set=set(cfg["delims"]), return_set=rs)
    if k == "qgram":
        return QgramTokenizer(qval=int(cfg["q"]), padding=bool(cfg.get("padding", True)),
                              return_set=rs)
    if k == "alpha":
        return AlphabeticTokenizer(return_set=rs)
    if k == "alnum":
        return AlphanumericTokenizer(return_set=rs)
    raise ValueError("unknown tokenizer kind %r" % (k,))


JOINS = {
    "JACCARD": ssj.jaccard_join,
    "COSINE": ssj.cosine_join,
    "DICE": ssj.dice_join,
    "OVERLAP_COEFFICIENT": ssj.overlap_coefficient_join,
    "OVERLAP": ssj.overlap_join,
    "EDIT_DISTANCE": ssj.edit_distance_join,
}

FILTERS = {
    "size": ssj.SizeFilter,
    "prefix": ssj.PrefixFilter,
    "position": ssj.PositionFilter,
    "suffix": ssj.SuffixFilter,
    "overlap": ssj.OverlapFilter,
}


# ---------------------------------------------------------------- a second library instance

import contextlib  # noqa: E402
import importlib  # noqa: E402

JOIN_NAMES = {"JACCARD": "jaccard_join", "COSINE": "cosine_join", "DICE": "dice_join",
              "OVERLAP_COEFFICIENT": "overlap_coefficient_join", "OVERLAP": "overlap_join",
              "EDIT_DISTANCE": "edit_distance_join"}
FILTER_NAMES = {"size": "SizeFilter", "prefix": "PrefixFilter", "position": "PositionFilter",
                "suffix": "SuffixFilter", "overlap": "OverlapFilter"}


def _is_pkg(k):
    return k == "py_stringsimjoin" or k.startswith("py_stringsimjoin.")


class FreshLibrary(object):
    """A freshly imported, independent instance of py_stringsimjoin (its own module-level and
    class-level state), for 'the same call in isolation' comparisons.  While `active()` the
    fresh modules replace the main ones in sys.modules, because the public wrappers import
    their *_py implementations lazily at call time."""

    def __init__(self):
        saved = dict((k, v) for k, v in sys.modules.items() if _is_pkg(k))
        for k in saved:
            del sys.modules[k]
        try:
            m = importlib.import_module("py_stringsimjoin")
            m.__use_cython__ = False
            for n in ("jaccard_join_py", "cosine_join_py", "dice_join_py", "overlap_join_py",
                      "overlap_coefficient_join_py", "edit_distance_join_py"):
                importlib.import_module("py_stringsimjoin.join." + n)
            self.mods = dict((k, v) for k, v in sys.modules.items() if _is_pkg(k))
            self.ssj = m
        finally:
            for k in [k for k in sys.modules if _is_pkg(k)]:
                del sys.modules[k]
            sys.modules.update(saved)

    @contextlib.contextmanager
    def active(self):
        saved = dict((k, v) for k, v in sys.modules.items() if _is_pkg(k))
        for k in saved:
            del sys.modules[k]
        sys.modules.update(self.mods)
        try:
            yield self.ssj
        finally:
            for k in [k for k in sys.modules if _is_pkg(k)]:
                del sys.modules[k]
            sys.modules.update(saved)
