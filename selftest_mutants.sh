#!/bin/bash
# Sensitivity self-test: each mutant must trip at least one of the checks listed for it (quick tier).
# usage: ./selftest_mutants.sh [pattern]   -> writes mutants/RESULTS.txt
cd "$(dirname "$0")"
declare -A EXPECT=(
 [m01]="C01 C04" [m02]="C01 C04" [m03]="C01 C04" [m04]="C01 C04" [m05]="C01" [m06]="C02 C13"
 [m07]="C02" [m08]="C03 C04" [m09]="C03" [m10]="C09" [m11]="C10" [m12]="C10"
 [m13]="C11" [m14]="C11" [m15]="C08" [m16]="C05" [m17]="C05" [m18]="C06" [m19]="C06 C01"
 [m20]="C02" [m21]="C12" [m22]="C15" [m23]="C14" [m24]="C16" [m25]="C17" [m26]="C05"
 [m27]="C14" [m28]="C01 C04" [m29]="C10" [m30]="C12" [m31]="C12" [m32]="C04" [m33]="C04" [m34]="C01"
)
out=mutants/RESULTS.txt
: > "$out.tmp"
for p in mutants/m*${1:-}*.diff; do
  k=$(basename "$p" | cut -d- -f1)
  res=$(tools/mutant.sh "$p" ${EXPECT[$k]})
  echo "$res" | tee -a "$out.tmp"
  if echo "$res" | grep -q "rc=1"; then echo "  => $k CAUGHT" | tee -a "$out.tmp"; else echo "  => $k MISSED" | tee -a "$out.tmp"; fi
done
mv "$out.tmp" "$out"
