#!/bin/bash
# Re-run, for every seeded/<name>/, the checks recorded in its meta.json against a scratch
# worktree with the patch applied, and refresh meta.json's "ran" list.  usage: tools/rerun_seeds.sh [name-pattern]
cd "$(dirname "$0")/.."
for dir in seeded/*${1:-}*/; do
  name=$(basename "$dir")
  [ -f "$dir/meta.json" ] || continue
  checks=$(python3 -c "import json;print(' '.join(r['check'] for r in json.load(open('$dir/meta.json'))['ran']))")
  W=$(mktemp -d /tmp/vfy-XXXXXX); rmdir "$W"
  git -C /repo worktree add -q --detach "$W" HEAD
  if ! git -C "$W" apply "$(pwd)/${dir}patch.diff"; then echo "$name: PATCH DOES NOT APPLY"; git -C /repo worktree remove --force "$W"; continue; fi
  res=""
  for id in $checks; do
    o=$(VERIF_REPO="$W" VERIF_NO_EVIDENCE=1 VERIF_SHRINK_S="${VERIF_SHRINK_S:-5}" VERIF_FAILFAST=1 ./check "$id" --tier quick 2>&1); rc=$?
    line=$(echo "$o" | grep -m1 'detail:' | cut -c1-300 | sed 's/\\/\\\\/g; s/"/\\"/g')
    echo "$name $id rc=$rc $(echo "$line" | cut -c1-160)"
    res="$res{\"check\": \"$id\", \"tier\": \"quick\", \"rc\": $rc, \"first_detail\": \"$line\"},"
  done
  python3 - "$dir/meta.json" "[${res%,}]" <<'PY'
import json, sys
m = json.load(open(sys.argv[1]))
m["ran"] = json.loads(sys.argv[2])
json.dump(m, open(sys.argv[1], "w"), indent=1)
PY
  git -C /repo worktree remove --force "$W"; git -C /repo worktree prune
done
