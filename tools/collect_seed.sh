#!/bin/bash
# usage: tools/collect_seed.sh <agent-worktree> <seed-name> <property> [check IDs to run ...]
# Verifies an independently written breaking change and files it under seeded/<seed-name>/.
set -u
src=$1; name=$2; prop=$3; shift 3
checks="$*"; [ -z "$checks" ] && checks=$prop
V=$(cd "$(dirname "$0")/.." && pwd)
out=$V/seeded/$name
mkdir -p "$out"
git -C "$src" diff > "$out/patch.diff"
cp "$src/demo.py" "$out/demo.py" 2>/dev/null
cp "$src/SEED_NOTES.md" "$out/SEED_NOTES.md" 2>/dev/null
W=$(mktemp -d /tmp/vfy-XXXXXX); rmdir "$W"
git -C /repo worktree add -q --detach "$W" HEAD
cp "$out/demo.py" "$W/demo.py"
( cd "$W" && PYTHONPATH="$W" PYTHONWARNINGS=ignore timeout 900 /venv/bin/python demo.py >/dev/null 2>&1 ); clean_rc=$?
if ! git -C "$W" apply "$out/patch.diff"; then echo "PATCH DOES NOT APPLY"; fi
( cd "$W" && PYTHONPATH="$W" PYTHONWARNINGS=ignore timeout 900 /venv/bin/python demo.py >/dev/null 2>&1 ); mut_rc=$?
base=$(python3 "$V/tools/baseline_check.py" "$W" | head -1)
echo "demo: clean rc=$clean_rc mutated rc=$mut_rc; $base"
results=""
cd "$V"
for id in $checks; do
  o=$(VERIF_REPO="$W" VERIF_NO_EVIDENCE=1 VERIF_SHRINK_S="${VERIF_SHRINK_S:-5}" VERIF_FAILFAST=1 ./check "$id" --tier "${TIER:-quick}" 2>&1); rc=$?
  line=$(echo "$o" | grep -m1 'detail:' | cut -c1-300 | sed 's/"/\\"/g')
  echo "  $id rc=$rc $line"
  results="$results{\"check\": \"$id\", \"tier\": \"${TIER:-quick}\", \"rc\": $rc, \"first_detail\": \"$line\"},"
done
cat > "$out/meta.json" <<EOM
{"name": "$name", "property": "$prop", "source": "independent sub-agent given only the property text and a scratch worktree",
 "demo_rc_unmodified": $clean_rc, "demo_rc_with_patch": $mut_rc, "baseline": "$base",
 "needs": "see SEED_NOTES.md", "ran": [${results%,}]}
EOM
git -C /repo worktree remove --force "$W"; git -C /repo worktree prune
