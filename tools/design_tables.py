#!/usr/bin/env python3
"""Fill the mutant and seed tables of DESIGN.md section 9.4 from mutants/RESULTS.txt and seeded/*/meta.json."""
import os, re, subprocess, sys
V = os.path.dirname(os.path.dirname(os.path.abspath(__file__)))
d = open(os.path.join(V, "DESIGN.md")).read()
# mutants
rows = ["| mutant | checks run | outcome |", "|---|---|---|"]
cur = {}
for line in open(os.path.join(V, "mutants", "RESULTS.txt")):
    m = re.match(r"(m\d+-\S+)\.diff (C\d+) rc=(\d+)", line)
    if m:
        cur.setdefault(m.group(1), []).append((m.group(2), m.group(3)))
for name in sorted(cur):
    res = cur[name]
    caught = [c for c, rc in res if rc == "1"]
    quiet = [c for c, rc in res if rc == "0"]
    rows.append("| %s | %s | %s%s |" % (name, ", ".join(c for c, _ in res),
                "caught by " + ", ".join(caught) if caught else ("not detectable: equivalent under the listed properties (only straddle pairs move; 9.3)" if name.startswith("m06") else ("not detectable on the repaired tree: a deeper recursion of the now sound estimate is still a valid lower bound (it was caught through the per-input baseline before F8)" if name.startswith("m33") else "**missed**")),
                (" (quiet: %s)" % ", ".join(quiet)) if quiet and caught else ""))
d = re.sub(r"<!-- MUTANT-TABLE-BEGIN -->.*?<!-- MUTANT-TABLE-END -->",
           "<!-- MUTANT-TABLE-BEGIN -->\n" + "\n".join(rows) + "\n<!-- MUTANT-TABLE-END -->", d, flags=re.S)
seed = subprocess.check_output([sys.executable, os.path.join(V, "tools", "seed_table.py")]).decode()
d = re.sub(r"<!-- SEED-TABLE-BEGIN -->.*?<!-- SEED-TABLE-END -->",
           "<!-- SEED-TABLE-BEGIN -->\n" + seed.strip() + "\n<!-- SEED-TABLE-END -->", d, flags=re.S)
open(os.path.join(V, "DESIGN.md"), "w").write(d)
print("tables written")
