#!/usr/bin/env python3
"""Run the repository's pinned suite and verify every test in BASELINE.stable_pass passes."""
import json, subprocess, sys, tempfile, os, xml.etree.ElementTree as ET
repo = sys.argv[1] if len(sys.argv) > 1 else "/repo"
base = json.load(open("/root/.vp/BASELINE.json"))
with tempfile.TemporaryDirectory() as d:
    x = os.path.join(d, "j.xml")
    subprocess.run(["/venv/bin/python", "-m", "pytest", "-q", "-p", "no:cacheprovider", "--timeout=900",
                    "--continue-on-collection-errors", "--junitxml=" + x], cwd=repo,
                   stdout=subprocess.DEVNULL, stderr=subprocess.DEVNULL)
    passed = set()
    for tc in ET.parse(x).getroot().iter("testcase"):
        if not any(ch.tag in ("failure", "error", "skipped") for ch in tc):
            passed.add("%s::%s" % (tc.get("classname"), tc.get("name")))
missing = [t for t in base["stable_pass"] if t not in passed]
print("baseline tests passing: %d/%d; total passing now: %d" % (len(base["stable_pass"]) - len(missing), len(base["stable_pass"]), len(passed)))
for t in missing:
    print("  NOT PASSING:", t)
sys.exit(1 if missing else 0)
