#!/usr/bin/env python3
"""usage: tools/mk_seed_prompt.py <property id> <worktree dir> <steer key> [file name]
Writes the prompt handed to a fresh sub-agent that seeds one breaking change: the property's
text, the environment facts and the steer -- nothing from /verif."""
import json
import os
import sys

HERE = os.path.dirname(os.path.dirname(os.path.abspath(__file__)))

STEER = {
    "shapes": (
        "The defect must be tied to an UNUSUAL BUT VALID SHAPE OF THE INPUT TABLES OR ARGUMENTS rather "
        "than to thresholds or token counts - for example: the same DataFrame object passed as both "
        "tables (self-join); key columns holding strings, negative numbers or very large integers; the "
        "key attribute equal to the join attribute; join columns of pandas 'string' dtype or with "
        "pd.NA / float('nan') / None mixed as missing markers; a table whose index is not 0..n-1 "
        "(repeated labels, strings, descending, a MultiIndex or DatetimeIndex); tables with a single "
        "row or column, with more rows on the left than on the right or vice versa; columns whose "
        "names contain spaces or equal the output prefixes or '_id' / '_sim_score'; both tables using "
        "identical column names; empty-string or equal output prefixes; candidate sets whose key "
        "columns are in a different order or carry extra columns; values that are very long, contain "
        "unicode, tabs/newlines or repeated whitespace. It must NOT show on small ordinary tables "
        "with a default RangeIndex and integer keys 0..n-1."),
    "file": (
        "The defect must be entirely inside the file %s (read the callers to understand how it is "
        "used). It should sit on a rarely used parameter value or code path or need a particular "
        "coincidence in the data; it must NOT show on a simple call with default parameters."),
    "clause": (
        "Read the property text closely and choose its LEAST OBVIOUS clause or sub-case - a "
        "parenthesised remark, an 'including when ...' case, one direction of an 'iff', the behaviour "
        "for one particular operator, flag, dtype or entry point named in the text, a guarantee about "
        "order, multiplicity, labels or dtypes - and break ONLY that clause, leaving the headline "
        "behaviour of the property intact. Say in SEED_NOTES.md which words of the property text "
        "the defect contradicts."),
    "silent": (
        "The defect must be SILENT AND PLAUSIBLE: the wrong result must look reasonable (no exception, "
        "no obviously malformed output, row counts close to the right ones) and affect only a small "
        "fraction of inputs (roughly one call in a few hundred random ones or fewer). Favour mistakes "
        "in arithmetic on sizes / positions / bounds, in the handling of ties or duplicates, in "
        "comparisons that are off by one ulp or one element, or in state carried from one row or one "
        "chunk to the next."),
}

TEMPLATE = """You are working in a scratch git worktree of the Python library py_stringsimjoin (string similarity joins over pandas tables) at {wt} . It is a copy of the repository HEAD. Work ONLY inside {wt}. Do NOT read or touch /repo or /verif (they are off limits for this task), and do not commit anything.

Environment facts:
- Run Python as:  cd {wt} && PYTHONPATH={wt} /venv/bin/python <script>
- The Cython extensions are not built. Before calling the public API do:  import py_stringsimjoin as ssj; ssj.__use_cython__ = False   (then ssj.jaccard_join etc. dispatch to the pure-Python *_py implementations under py_stringsimjoin/join/).
- pandas is version 3: build string columns explicitly with pd.Series(values, dtype=object) unless you want the new 'str' dtype on purpose. Always pass show_progress=False unless the progress bar is what you are after. Tokenizers come from py_stringmatching (WhitespaceTokenizer, QgramTokenizer, DelimiterTokenizer, ...; return_set=True for set semantics).
- Existing test suite:  cd {wt} && /venv/bin/python -m pytest -q -p no:cacheprovider --timeout=900 --continue-on-collection-errors   (currently 127 passed / 28 failed / 3 collection errors; the failing ones fail before any change too and many valid-path tests are skipped).

The library is supposed to satisfy this property:

--- PROPERTY {id}: {title} ---
{statement}

Quantified over: {quant}
--- end of property ---

Your task: introduce ONE realistic defect (the kind of slip a developer could plausibly make: an off-by-one, a wrong bound or rounding, a swapped index, a forgotten restore, a caching / keying mistake, a chunk-boundary slip, a condition that is slightly too strong or too weak, two sites that each look fine alone, ...) into the library source under {wt}/py_stringsimjoin (NOT in tests) such that:
 1. the package still imports and the existing test suite's results are unchanged (run it before and after your change; the set of passing tests must stay the same);
 2. the property above is violated for some inputs;
 3. the violation needs something SPECIFIC to manifest and is NOT exposed by any ordinary simple call. {steer}
Prefer a subtle, narrow defect over a blatant one, but it must be a genuine violation of the property as stated (not of something stronger), on inputs the library's documentation accepts.

Deliverables, all inside {wt}:
 - the source change left UNCOMMITTED in the working tree (I will collect it with `git diff`); keep it small (ideally < 15 changed lines);
 - a demonstration script {wt}/demo.py that uses only the public API, exits 0 on the unmodified code and fails (assertion error / non-zero exit) on the modified code. Verify both: run it with your change applied (must fail); then save the change with `git diff > {wt}.patch`, revert it with `git apply -R {wt}.patch`, run demo.py again (must pass), and re-apply with `git apply {wt}.patch` so that the change is back in the working tree at the end. Do NOT use `git stash` (the stash is shared between worktrees and other agents are working concurrently).
 - a short file {wt}/SEED_NOTES.md: what you changed, which property clause it breaks, exactly what is needed for it to manifest, and the commands you ran with their outcomes (including the test-suite pass counts before and after).
Finish with a brief report of the same."""


def main():
    pid, wt, steer = sys.argv[1:4]
    fname = sys.argv[4] if len(sys.argv) > 4 else None
    props = [json.loads(l) for l in open(os.path.join(HERE, "properties.jsonl"))]
    p = [q for q in props if q["id"] == pid][0]
    s = STEER[steer]
    if steer == "file":
        s = s % fname
    sys.stdout.write(TEMPLATE.format(wt=wt, id=pid, title=p["title"], statement=p["statement"],
                                     quant=p["quantifier"]["text"], steer=s))


if __name__ == "__main__":
    main()
