#!/bin/bash
# Run every quick check on the unchanged tree at several VERIF_SEED values; anything but
# exit 0 (or a VIOLATION / HARNESS line) is reported.  usage: tools/quiet_runs.sh [seeds...]
cd "$(dirname "$0")/.."
seeds="${*:-2 3 4}"
for s in $seeds; do
  for i in 01 02 03 04 05 06 07 08 09 10 11 12 13 14 15 16 17; do
    out=$(VERIF_SEED=$s VERIF_NO_EVIDENCE=1 ./check C$i --tier quick 2>&1); rc=$?
    bad=$(echo "$out" | grep -c -E '^(VIOLATION|HARNESS-ERROR)')
    echo "seed=$s C$i rc=$rc alarms=$bad $(echo "$out" | grep -E '^C[0-9]+ tier' | sed 's/.*evaluations/evaluations/')"
    if [ $rc -ne 0 ] || [ $bad -ne 0 ]; then echo "$out" | grep -E -A2 '^(VIOLATION|HARNESS-ERROR)' | cut -c1-400; fi
  done
done
