#!/usr/bin/env python3
"""Generate the sensitivity-self-test mutants (DESIGN section 8) as unified diffs under
mutants/ by textual replacement against the current /repo HEAD."""
import difflib, os, subprocess, sys
REPO = "/repo"
OUT = os.path.join(os.path.dirname(os.path.dirname(os.path.abspath(__file__))), "mutants")
P = "py_stringsimjoin/"
M = [
 ("m01-jaccard-prefix-no-plus1", P+"filter/filter_utils.py",
  "return int(num_tokens - ceil(round(threshold * num_tokens, 4)) + 1)",
  "return int(num_tokens - ceil(round(threshold * num_tokens, 4)))"),
 ("m02-dice-size-upper-floor-nt", P+"filter/filter_utils.py",
  "        return int(floor(round(\n            ((2 - threshold) / threshold) * num_tokens, 4)))",
  "        return int(floor(round(\n            (1 / threshold) * num_tokens, 4)))"),
 ("m03-required-overlap-plus1-cosine", P+"filter/filter_utils.py",
  "return ceil(round(threshold * sqrt(l_num_tokens * r_num_tokens), 4))",
  "return ceil(round(threshold * sqrt(l_num_tokens * r_num_tokens), 4)) + 1"),
 ("m04-position-remaining-one-too-small", P+"filter/position_filter.py",
  "                            overlap_upper_bound = cand_num_tokens - cand_pos \n",
  "                            overlap_upper_bound = cand_num_tokens - cand_pos - 1\n"),
 ("m05-setsim-overlap-gt-1", P+"join/set_sim_join.py",
  "            if overlap > 0:\n                l_ordered_tokens = cached_l_tokens[cand]",
  "            if overlap > 1:\n                l_ordered_tokens = cached_l_tokens[cand]"),
 ("m06-setsim-compare-unrounded", P+"join/set_sim_join.py",
  "                sim_score = round(sim_fn(l_ordered_tokens, r_ordered_tokens), 4)\n\n                if comp_fn(sim_score, threshold):",
  "                raw_score = sim_fn(l_ordered_tokens, r_ordered_tokens)\n                sim_score = round(raw_score, 4)\n\n                if comp_fn(raw_score, threshold):"),
 ("m07-setsim-append-unrounded", P+"join/set_sim_join.py",
  "                sim_score = round(sim_fn(l_ordered_tokens, r_ordered_tokens), 4)\n\n                if comp_fn(sim_score, threshold):",
  "                sim_score = sim_fn(l_ordered_tokens, r_ordered_tokens)\n\n                if comp_fn(round(sim_score, 4), threshold):"),
 ("m08-ed-prefix-qt", P+"filter/filter_utils.py",
  "return min(tokenizer.qval * threshold + 1, num_tokens)",
  "return min(tokenizer.qval * threshold, num_tokens)"),
 ("m09-ed-length-filter-strict", P+"join/edit_distance_join_py.py",
  "            if r_len - threshold <= l_join_attr_list[cand] <= r_len + threshold:",
  "            if r_len - threshold < l_join_attr_list[cand] <= r_len + threshold:"),
 ("m10-setsim-empty-only-first-left", P+"join/set_sim_join.py",
  "            for l_id in l_empty_records:\n                if has_output_attributes:\n                    output_row = get_output_row_from_tables(\n                                     ltable[l_id], r_row,",
  "            for l_id in l_empty_records[:2]:\n                if has_output_attributes:\n                    output_row = get_output_row_from_tables(\n                                     ltable[l_id], r_row,"),
 ("m11-split-table-int", P+"utils/generic_helper.py",
  "        splits.append(table[int(round(i*split_size)):\n                            int(round((i+1)*split_size))])",
  "        splits.append(table[int(i*split_size):\n                            int((i+1)*split_size)])"),
 ("m12-id-from-1-jaccard", P+"join/jaccard_join_py.py",
  "output_table.insert(0, '_id', range(0, len(output_table)))",
  "output_table.insert(0, '_id', range(1, len(output_table) + 1))"),
 ("m13-output-row-right-attrs-reversed", P+"utils/generic_helper.py",
  "    if r_out_attrs_indices:\n        for r_attr_index in r_out_attrs_indices:\n            output_row.append(r_row[r_attr_index])",
  "    if r_out_attrs_indices:\n        for r_attr_index in reversed(r_out_attrs_indices):\n            output_row.append(r_row[r_attr_index])"),
 ("m14-dedupe-loses-order", P+"utils/generic_helper.py",
  "    return uniq_attrs\n", "    return sorted(uniq_attrs)\n"),
 ("m15-missing-first-loop-notmissing-right", P+"utils/missing_value_handler.py",
  "        for r_row in rtable.itertuples(index=False):\n            if has_output_attributes:",
  "        for r_row in rtable[pd.notnull(rtable[r_join_attr])].itertuples(index=False):\n            if has_output_attributes:"),
 ("m16-matcher-eq-as-ge", P+"utils/generic_helper.py",
  "               '=': operator.eq,", "               '=': operator.ge,"),
 ("m17-matcher-id-renumbered", P+"matcher/apply_matcher.py",
  "                output_row = [candset_row[0], l_id, r_id]",
  "                output_row = [len(output_rows), l_id, r_id]"),
 ("m18-candset-split-lr-swapped", P+"filter/filter.py",
  "        valid_rows.append(not filter_object.filter_pair(\n                                  l_row[l_filter_attr_index],\n                                  r_row[r_filter_attr_index]))",
  "        valid_rows.append(not filter_object.filter_pair(\n                                  r_row[r_filter_attr_index],\n                                  l_row[l_filter_attr_index]))"),
 ("m19-overlapfilter-skip-first-probe-token", P+"filter/overlap_filter.py",
  "        for token in probe_tokens:\n            for cand in inverted_index.probe(token):",
  "        for token in list(probe_tokens)[1:] if len(probe_tokens) > 3 else probe_tokens:\n            for cand in inverted_index.probe(token):"),
 ("m20-overlap-coefficient-max", P+"join/overlap_coefficient_join_py.py",
  "                         float(min(r_num_tokens,", "                         float(max(r_num_tokens,"),
 ("m21-dice-join-flag-not-restored", P+"join/dice_join_py.py",
  "    if revert_tokenizer_return_set_flag:\n        tokenizer.set_return_set(False)\n",
  "    if revert_tokenizer_return_set_flag and allow_missing:\n        tokenizer.set_return_set(False)\n"),
 ("m22-cosine-validation-after-flip", P+"join/cosine_join_py.py", None, None),
 ("m23-sizefilter-lower-floor", P+"filter/filter_utils.py",
  "        return int(ceil(round(threshold * num_tokens, 4)))\n    elif sim_measure_type == 'OVERLAP':\n        return threshold\n\n\ndef get_size_upper_bound",
  "        return int(floor(round(threshold * num_tokens, 4)))\n    elif sim_measure_type == 'OVERLAP':\n        return threshold\n\n\ndef get_size_upper_bound"),
 ("m24-converter-nan-to-string", P+"utils/converter.py",
  "            col_str = series.apply(lambda val: np.NaN if        \n                                            pd.isnull(val) else str(val))",
  "            col_str = series.apply(lambda val: str(val))"),
 ("m25-profiler-nunique", P+"profiler/profiler.py",
  "unique_values = len(input_table[attr].unique())", "unique_values = input_table[attr].nunique()"),
 ("m26-matcher-cache-keyed-by-swapped", P+"matcher/apply_matcher.py",
  "                    r_apply_col_value = r_tokens[r_id]",
  "                    r_apply_col_value = r_tokens.get(l_id, r_tokens[r_id]) if len(r_tokens) > 6 else r_tokens[r_id]"),
 ("m27-sizefilter-keeps-everything-large", P+"filter/size_filter.py",
  "        if size_lower_bound <= r_num_tokens <= size_upper_bound:\n            return False",
  "        if size_lower_bound <= r_num_tokens <= size_upper_bound or l_num_tokens > 12:\n            return False"),
 ("m28-position-index-prefix-pos-offset", P+"index/position_index.py",
  "                self.index.get(token).append((row_id, pos))",
  "                self.index.get(token).append((row_id, pos + (1 if num_tokens > 9 else 0)))"),
 ("m29-token-order-hash-dependent", P+"utils/token_ordering.py",
  "    ordered_tokens = sorted(list(token_freq_dict.items()), key=itemgetter(0))\n\n    token_ordering = {}\n    order_idx = 1",
  "    ordered_tokens = list(set(token_freq_dict.items()))\n\n    token_ordering = {}\n    order_idx = 1"),
 ("m30-join-sorts-left-table-inplace", P+"join/dice_join_py.py",
  "    # remove redundant attrs from output attrs.\n",
  "    if len(ltable) > 3:\n        ltable.sort_values(l_join_attr, inplace=True)\n\n    # remove redundant attrs from output attrs.\n"),
 ("m31-default-tokenizer-qval-drift", P+"join/edit_distance_join_py.py",
  "    # convert threshold to integer (incase if it is float)\n",
  "    if threshold > 2 and tokenizer.qval < 3:\n        tokenizer.qval += 1\n\n    # convert threshold to integer (incase if it is float)\n"),
 ("m32-suffix-hamming-budget-minus-1", P+"filter/suffix_filter.py",
  "        hamming_dist_max = (l_num_tokens + r_num_tokens - 2 * overlap_threshold)\n",
  "        hamming_dist_max = (l_num_tokens + r_num_tokens - 2 * overlap_threshold) - 1\n"),
 ("m33-suffix-max-depth-3", P+"filter/suffix_filter.py",
  "        self.max_depth = 2\n", "        self.max_depth = 3\n"),
 ("m34-setsim-progress-path-drops-row", P+"join/set_sim_join.py",
  "        if show_progress:\n            prog_bar.update()\n\n    output_header",
  "        if show_progress:\n            prog_bar.update()\n            if len(output_rows) > 2:\n                output_rows.pop()\n\n    output_header"),
]
os.makedirs(OUT, exist_ok=True)
for name, path, old, new in M:
    src = subprocess.check_output(["git", "-C", REPO, "show", "HEAD:" + path]).decode()
    if name.startswith("m22"):
        # move the tokenizer flip before the threshold validation in cosine_join_py
        flip = ("    revert_tokenizer_return_set_flag = False\n    if not tokenizer.get_return_set():\n"
                "        tokenizer.set_return_set(True)\n        revert_tokenizer_return_set_flag = True\n")
        assert flip in src, name
        dst = src.replace("    # set return_set flag of tokenizer to be True, in case it is set to False\n" + flip, "")
        anchor = "    # check if the input threshold is valid\n"
        assert anchor in dst, name
        dst = dst.replace(anchor, flip + "\n" + anchor, 1)
    else:
        if src.count(old) < 1:
            print("ANCHOR NOT FOUND:", name); continue
        dst = src.replace(old, new, 1)
    diff = "".join(difflib.unified_diff(src.splitlines(True), dst.splitlines(True), "a/" + path, "b/" + path))
    open(os.path.join(OUT, name + ".diff"), "w").write(diff)
print("wrote", len(os.listdir(OUT)), "mutants")
