#!/usr/bin/env python3
"""Print a markdown table of seeded/<name>/meta.json (which checks caught which change)."""
import glob, json, os, re
rows = []
for f in sorted(glob.glob(os.path.join(os.path.dirname(__file__), "..", "seeded", "*", "meta.json"))):
    m = json.load(open(f))
    diff = open(os.path.join(os.path.dirname(f), "patch.diff")).read()
    files = sorted(set(re.findall(r"^\+\+\+ b/(\S+)", diff, re.M)))
    caught = [r["check"] for r in m["ran"] if r["rc"] == 1]
    missed = [r["check"] for r in m["ran"] if r["rc"] == 0]
    err = [r["check"] for r in m["ran"] if r["rc"] not in (0, 1)]
    if m.get("status"):
        rows.append("| %s | %s | %s | ok at %s | (%s) caught by C04 there; obsolete since F8 |" % (
            m["name"], m["property"], ", ".join(os.path.basename(x) for x in files), m.get("base_commit"), "pre-repair tree"))
        continue
    rows.append("| %s | %s | %s | %s | %s%s |" % (m["name"], m["property"], ", ".join(os.path.basename(x) for x in files),
                "ok" if m["demo_rc_unmodified"] == 0 and m["demo_rc_with_patch"] != 0 else "DEMO?",
                ", ".join(caught) or "-", (" (quiet: %s)" % ", ".join(missed)) if missed else "") + (" ERR:%s" % err if err else ""))
print("| seed | property | file(s) changed | demo | caught by (quick tier) |")
print("|---|---|---|---|---|")
print("\n".join(rows))
