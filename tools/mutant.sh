#!/bin/bash
# usage: tools/mutant.sh <patch.diff> <ID> [ID...]   (env TIER=quick|thorough)
# Applies the patch to a scratch worktree of /repo (outside /repo and /verif), runs the given
# checks against it via VERIF_REPO, prints one line per check, removes the worktree.
set -u
patch=$(readlink -f "$1"); shift
d=$(mktemp -d /tmp/mut-XXXXXX)
rmdir "$d"
git -C /repo worktree add -q --detach "$d" HEAD || exit 2
if ! git -C "$d" apply "$patch"; then echo "PATCH-FAILED $patch"; git -C /repo worktree remove --force "$d"; exit 2; fi
cd "$(dirname "$0")/.."
for id in "$@"; do
  out=$(VERIF_REPO="$d" VERIF_NO_EVIDENCE=1 VERIF_SHRINK_S="${VERIF_SHRINK_S:-5}" VERIF_FAILFAST="${VERIF_FAILFAST:-1}" ./check "$id" --tier "${TIER:-quick}" 2>&1); rc=$?
  v=$(echo "$out" | grep -c '^VIOLATION')
  echo "$(basename "$patch") $id rc=$rc violations=$v $(echo "$out" | grep -m1 'detail:' | cut -c1-220)"
done
git -C /repo worktree remove --force "$d"
git -C /repo worktree prune
