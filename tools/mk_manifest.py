#!/usr/bin/env python3
"""Regenerate MANIFEST.json from the table below (kept in one place so it stays valid)."""
import json, os
HERE = os.path.dirname(os.path.dirname(os.path.abspath(__file__)))

CHECKS = json.load(open(os.path.join(HERE, "tools", "checks.json")))

m = {
    "version": 1,
    "setup_cmd": "./setup.sh",
    "hooks": {
        "guard": "PY_STRINGSIMJOIN_VERIF",
        "enable": "no source hooks are needed: every property is observable at the public API; the "
                  "checks import the working tree from $VERIF_REPO (default /repo) and set the "
                  "package's own switch py_stringsimjoin.__use_cython__ = False at run time",
        "baseline_off_cmd": "cd /repo && /venv/bin/python -m pytest -ra -q -p no:cacheprovider "
                            "--timeout=900 --continue-on-collection-errors",
        "source_commits": [],
        "add_only": True,
    },
    "engines": [
        {"name": "pbt", "path": "pbt/", "serves_properties": [c["id"] for c in CHECKS],
         "kind_free_text": "Hypothesis 6.168 property-based tests (random + stateful) and exhaustive "
                           "itertools enumerations over finite structured domains, sharded over 16 "
                           "processes; explicit reference model (own set arithmetic, Levenshtein), "
                           "differential and metamorphic oracles"}],
    "checks": [],
    "notes": "See DESIGN.md. ./check <ID> --tier quick|thorough; VERIF_SEED selects the Hypothesis "
             "seed; exit 0/1/2 = held / VIOLATION / harness error. known_findings.txt lists open and "
             "fixed findings.",
    "not_applicable": [],
}
for c in CHECKS:
    m["checks"].append({
        "property_id": c["id"],
        "quick_cmd": "./check %s --tier quick" % c["id"],
        "thorough_cmd": "./check %s --tier thorough" % c["id"],
        "evidence_file": "evidence/%s.json" % c["id"],
        "replay_cmd_template": "./check %s --replay {path}" % c["id"],
        "engine": "pbt",
        "level_claimed": {"category": "exploration", "text": c["text"],
                          "design_ref": c.get("ref", "DESIGN.md section 4, " + c["id"])},
        "level_note": c["note"],
        "technique": c["technique"],
    })
json.dump(m, open(os.path.join(HERE, "MANIFEST.json"), "w"), indent=1)
print("MANIFEST.json: %d checks" % len(m["checks"]))
