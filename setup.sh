#!/bin/bash
# offline setup: the only third-party dependency the checks add is hypothesis.
set -e
cd "$(dirname "$0")"
if ! /venv/bin/python -c "import hypothesis" 2>/dev/null; then
  /venv/bin/pip install --no-index --find-links /opt/veriftools/wheels hypothesis
fi
/venv/bin/python -c "import hypothesis, pandas, numpy, joblib, py_stringmatching; print('setup ok: hypothesis', hypothesis.__version__)"
mkdir -p evidence replay_out .work
